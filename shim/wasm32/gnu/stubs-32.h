/* empty: see shim/README */
