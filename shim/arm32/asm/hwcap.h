/* value of the Linux uapi header (arch/arm/include/uapi/asm/hwcap.h): see shim/README */
#define HWCAP_NEON (1 << 12)
