/* empty: see shim/README */
