/* values of the Linux uapi header (arch/arm64/include/uapi/asm/hwcap.h): see shim/README */
#define HWCAP_ASIMD (1 << 1)
#define HWCAP_SVE (1 << 22)
