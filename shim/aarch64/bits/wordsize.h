/* LP64 for the aarch64 cross-target programs: see shim/README */
#define __WORDSIZE 64
#define __WORDSIZE_TIME64_COMPAT32 1
#define __SYSCALL_WORDSIZE 64
