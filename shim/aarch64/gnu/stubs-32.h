/* empty: see shim/README */
