// C16: complex batches.  A complex operand travels as two arrays (real parts, imaginary parts).
#include "xv_harness.hpp"

#include <complex>

namespace xv
{
    template <class T>
    using CB = xs::batch<std::complex<T>, arch>;

    // kinds: 0 = z -> z, 1 = (z, w) -> z, 2 = z -> real, 3 = (z, w) -> bool, 4 = (z, real y) -> z, 5 = (r, theta) -> z, 6 = (z, w, u) -> z, 7 = z -> (z, z)
    template <class T, class F, int KIND>
    int crun(const void* const* in, void* const* out, size_t n, xv_ctx*)
    {
        constexpr size_t L = B<T>::size;
        for (size_t i = 0; i + L <= n; i += L)
        {
            auto ld = [&](int k)
            { return B<T>::load_unaligned((const T*)in[k] + i); };
            if constexpr (KIND == 0)
            {
                CB<T> r = F::f(CB<T>(ld(0), ld(1)));
                r.real().store_unaligned((T*)out[0] + i);
                r.imag().store_unaligned((T*)out[1] + i);
            }
            else if constexpr (KIND == 1)
            {
                CB<T> r = F::f(CB<T>(ld(0), ld(1)), CB<T>(ld(2), ld(3)));
                r.real().store_unaligned((T*)out[0] + i);
                r.imag().store_unaligned((T*)out[1] + i);
            }
            else if constexpr (KIND == 2)
            {
                B<T> r = F::f(CB<T>(ld(0), ld(1)));
                r.store_unaligned((T*)out[0] + i);
            }
            else if constexpr (KIND == 3)
            {
                BB<T> r = F::f(CB<T>(ld(0), ld(1)), CB<T>(ld(2), ld(3)));
                r.store_unaligned((bool*)out[0] + i);
            }
            else if constexpr (KIND == 4)
            {
                CB<T> r = F::f(CB<T>(ld(0), ld(1)), ld(2));
                r.real().store_unaligned((T*)out[0] + i);
                r.imag().store_unaligned((T*)out[1] + i);
            }
            else if constexpr (KIND == 5)
            {
                CB<T> r = F::f(ld(0), ld(1));
                r.real().store_unaligned((T*)out[0] + i);
                r.imag().store_unaligned((T*)out[1] + i);
            }
            else if constexpr (KIND == 6)
            {
                CB<T> r = F::f(CB<T>(ld(0), ld(1)), CB<T>(ld(2), ld(3)), CB<T>(ld(4), ld(5)));
                r.real().store_unaligned((T*)out[0] + i);
                r.imag().store_unaligned((T*)out[1] + i);
            }
            else
            {
                auto r = F::f(CB<T>(ld(0), ld(1)));
                r.first.real().store_unaligned((T*)out[0] + i);
                r.first.imag().store_unaligned((T*)out[1] + i);
                r.second.real().store_unaligned((T*)out[2] + i);
                r.second.imag().store_unaligned((T*)out[3] + i);
            }
        }
        return 0;
    }

    // interleaved memory forms: the operand / result passes through an array of std::complex<T> ((re, im) pairs)
    // FORM 0: load_unaligned(complex*), 1: load_aligned, 2: store_unaligned(complex*), 3: store_aligned
    template <class T, int FORM>
    int cmem(const void* const* in, void* const* out, size_t n, xv_ctx*)
    {
        constexpr size_t L = B<T>::size;
        alignas(64) std::complex<T> buf[L + 1];
        for (size_t i = 0; i + L <= n; i += L)
        {
            const T* re = (const T*)in[0] + i;
            const T* im = (const T*)in[1] + i;
            if constexpr (FORM < 2)
            {
                std::complex<T>* p = FORM == 0 ? buf + 1 : buf; // buf + 1 is aligned on sizeof(complex<T>) only
                for (size_t k = 0; k < L; ++k)
                    p[k] = std::complex<T>(re[k], im[k]);
                CB<T> r = FORM == 0 ? CB<T>::load_unaligned(p) : CB<T>::load_aligned(p);
                r.real().store_unaligned((T*)out[0] + i);
                r.imag().store_unaligned((T*)out[1] + i);
            }
            else
            {
                std::complex<T>* p = FORM == 2 ? buf + 1 : buf;
                CB<T> r(B<T>::load_unaligned(re), B<T>::load_unaligned(im));
                if (FORM == 2)
                    r.store_unaligned(p);
                else
                    r.store_aligned(p);
                for (size_t k = 0; k < L; ++k)
                {
                    ((T*)out[0])[i + k] = p[k].real();
                    ((T*)out[1])[i + k] = p[k].imag();
                }
            }
        }
        return 0;
    }
    template <class T, int FORM>
    void cmemreg(const char* name)
    {
        xv_op o;
        std::memset(&o, 0, sizeof o);
        o.prop = "C16";
        o.name = name;
        o.elem = tcode<T>::value;
        o.nin = 2;
        for (int k = 0; k < 4; ++k)
            o.in_t[k] = tcode<T>::value;
        o.nout = 2;
        o.out_t[0] = o.out_t[1] = tcode<T>::value;
        o.lanes = (int)B<T>::size; // kind 0
        o.fn = &cmem<T, FORM>;
        registry().push_back(o);
    }

    // the op table entry reuses xv_op: nin/nout count real arrays
    template <class T, class F, int KIND>
    void creg(const char* name)
    {
        static const int NIN[] = { 2, 4, 2, 4, 3, 2, 6, 2 }, NOUT[] = { 2, 2, 1, 1, 2, 2, 2, 4 };
        xv_op o;
        std::memset(&o, 0, sizeof o);
        o.prop = "C16";
        o.name = name;
        o.elem = tcode<T>::value;
        o.nin = NIN[KIND] > 4 ? 4 : NIN[KIND]; // in_t has four slots; the six-array kind is flagged through `lanes` below
        for (int k = 0; k < 4; ++k)
            o.in_t[k] = tcode<T>::value;
        o.nout = NOUT[KIND] > 2 ? 2 : NOUT[KIND];
        o.out_t[0] = KIND == 3 ? (int)XV_BOOL : tcode<T>::value;
        o.out_t[1] = tcode<T>::value;
        o.lanes = (int)B<T>::size + 1000 * KIND; // kind encoded for the explorer
        o.fn = &crun<T, F, KIND>;
        registry().push_back(o);
    }

#define XV_C1(NAME, EXPR)                                   \
    struct NAME                                             \
    {                                                       \
        template <class Z>                                  \
        static auto f(Z const& a) { return EXPR; }          \
    };
#define XV_C2(NAME, EXPR)                                         \
    struct NAME                                                   \
    {                                                             \
        template <class Z, class W>                               \
        static auto f(Z const& a, W const& b) { return EXPR; }    \
    };
#define XV_C3(NAME, EXPR)                                                    \
    struct NAME                                                              \
    {                                                                        \
        template <class Z, class W, class U>                                 \
        static auto f(Z const& a, W const& b, U const& c) { return EXPR; }   \
    };
    XV_C2(c_add, a + b)
    XV_C2(c_sub, a - b)
    XV_C2(c_mul, a* b)
    XV_C2(c_div, a / b)
    XV_C3(c_fma, xs::fma(a, b, c))
    XV_C3(c_fms, xs::fms(a, b, c))
    XV_C3(c_fnma, xs::fnma(a, b, c))
    XV_C3(c_fnms, xs::fnms(a, b, c))
    XV_C2(c_eq, a == b)
    XV_C2(c_ne, a != b)
    XV_C1(c_neg, -a)
    // the overloads that take a REAL batch and treat it as a complex batch with a zero imaginary part
    XV_C1(c_real_ra, xs::real(a.real()))
    XV_C1(c_imag_ra, xs::imag(a.real()))
    XV_C1(c_conj_ra, xs::conj(a.real()))
    XV_C1(c_proj_ra, xs::proj(a.real()))
    XV_C1(c_norm_ra, xs::norm(a.real()))
    XV_C1(c_arg_ra, xs::arg(a.real()))
    XV_C1(c_real, xs::real(a))
    XV_C1(c_imag, xs::imag(a))
    XV_C1(c_conj, xs::conj(a))
    XV_C1(c_proj, xs::proj(a))
    XV_C1(c_norm, xs::norm(a))
    XV_C1(c_abs, xs::abs(a))
    XV_C1(c_arg, xs::arg(a))
    XV_C2(c_polar, xs::polar(a, b))
    XV_C1(c_exp, xs::exp(a))
    XV_C1(c_expm1, xs::expm1(a))
    XV_C1(c_log, xs::log(a))
    XV_C1(c_log2, xs::log2(a))
    XV_C1(c_log10, xs::log10(a))
    XV_C1(c_sqrt, xs::sqrt(a))
    XV_C1(c_sin, xs::sin(a))
    XV_C1(c_cos, xs::cos(a))
    XV_C1(c_sincos, xs::sincos(a))
    XV_C1(c_sinh, xs::sinh(a))
    XV_C1(c_cosh, xs::cosh(a))
    XV_C1(c_tan, xs::tan(a))
    XV_C1(c_tanh, xs::tanh(a))
    XV_C2(c_pow, xs::pow(a, b))

    // other spellings of the complex batch class
    struct c_preinc
    {
        template <class Z>
        static Z f(Z a) { ++a; return a; }
    };
    struct c_postdec
    {
        template <class Z>
        static Z f(Z a) { a--; return a; }
    };
    struct c_add_real
    {
        template <class Z, class W>
        static Z f(Z const& a, W const& b) { return a + b.real(); } // complex batch + real batch
    };
    struct c_mul_real
    {
        template <class Z, class W>
        static Z f(Z const& a, W const& b) { return b.real() * a; } // real batch * complex batch
    };
    struct c_sub_assign
    {
        template <class Z, class W>
        static Z f(Z a, W const& b) { a -= b; return a; }
    };
    struct c_div_assign
    {
        template <class Z, class W>
        static Z f(Z a, W const& b) { a /= b; return a; }
    };
    struct c_add_assign
    {
        template <class Z, class W>
        static Z f(Z a, W const& b) { a += b; return a; }
    };
    struct c_mul_assign
    {
        template <class Z, class W>
        static Z f(Z a, W const& b) { a *= b; return a; }
    };
    // the same object on both sides (a compound assignment that reads `other` after writing a member goes wrong only here)
#define XV_CSELF(NAME, STMT)                     \
    struct NAME                                  \
    {                                            \
        template <class Z>                       \
        static Z f(Z a) { STMT; return a; }      \
    };
    XV_CSELF(c_selfadd, a += a)
    XV_CSELF(c_selfsub, a -= a)
    XV_CSELF(c_selfmul, a *= a)
    XV_CSELF(c_selfmul_op, a = a * a)
    XV_CSELF(c_selfdiv, a /= a)
    XV_CSELF(c_selffma, a = xs::fma(a, a, a))
    struct c_mul_assign_real
    {
        template <class Z, class W>
        static Z f(Z a, W const& b) { a *= b.real(); return a; } // complex batch *= real batch
    };
    struct c_div_real
    {
        template <class Z, class W>
        static Z f(Z const& a, W const& b) { return a / b.real(); } // complex batch / real batch
    };
    struct c_sub_real_l
    {
        template <class Z, class W>
        static Z f(Z const& a, W const& b) { return b.real() - a; } // real batch - complex batch
    };
    struct c_get
    {
        template <class Z>
        static Z f(Z const& a)
        {
            typename Z::value_type v[Z::size];
            for (size_t k = 0; k < Z::size; ++k)
                v[k] = a.get(k);
            return Z::load_unaligned(v);
        }
    };
    struct c_bcast
    {
        template <class Z>
        static Z f(Z const& a)
        {
            typename Z::value_type v[Z::size], w[Z::size];
            a.store_unaligned(v);
            for (size_t k = 0; k < Z::size; ++k)
            {
                Z b(v[k]); // broadcast of one complex scalar
                w[k] = b.get(k);
            }
            return Z::load_unaligned(w);
        }
    };
    struct c_scalar_mul
    {
        template <class Z>
        static Z f(Z const& a)
        {
            typename Z::value_type v[Z::size], w[Z::size];
            a.store_unaligned(v);
            for (size_t k = 0; k < Z::size; ++k)
            {
                Z r = Z(v[k]) * typename Z::value_type(2, -3); // complex batch * complex scalar
                w[k] = r.get(k);
            }
            return Z::load_unaligned(w);
        }
    };

    template <class T>
    void reg_c()
    {
        creg<T, c_add, 1>("c.add");
        creg<T, c_sub, 1>("c.sub");
        creg<T, c_mul, 1>("c.mul");
        creg<T, c_div, 1>("c.div");
        creg<T, c_fma, 6>("c.fma");
        creg<T, c_fms, 6>("c.fms");
        creg<T, c_fnma, 6>("c.fnma");
        creg<T, c_fnms, 6>("c.fnms");
        creg<T, c_eq, 3>("c.eq");
        creg<T, c_ne, 3>("c.ne");
        creg<T, c_neg, 0>("c.neg");
        creg<T, c_real, 2>("c.real");
        creg<T, c_imag, 2>("c.imag");
        creg<T, c_conj, 0>("c.conj");
        creg<T, c_proj, 0>("c.proj");
        creg<T, c_norm, 2>("c.norm");
        creg<T, c_abs, 2>("c.abs");
        creg<T, c_arg, 2>("c.arg");
        creg<T, c_polar, 5>("c.polar");
        creg<T, c_exp, 0>("c.exp");
        creg<T, c_expm1, 0>("c.expm1");
        creg<T, c_log, 0>("c.log");
        creg<T, c_log2, 0>("c.log2");
        creg<T, c_log10, 0>("c.log10");
        creg<T, c_sqrt, 0>("c.sqrt");
        creg<T, c_sin, 0>("c.sin");
        creg<T, c_cos, 0>("c.cos");
        creg<T, c_sincos, 7>("c.sincos");
        creg<T, c_sinh, 0>("c.sinh");
        creg<T, c_cosh, 0>("c.cosh");
        creg<T, c_tan, 0>("c.tan");
        creg<T, c_tanh, 0>("c.tanh");
        creg<T, c_pow, 4>("c.pow");
        creg<T, c_preinc, 0>("c.incr.op");
        creg<T, c_postdec, 0>("c.decr.op");
        creg<T, c_add_real, 1>("c.add.real");
        creg<T, c_mul_real, 1>("c.mul.real");
        creg<T, c_sub_assign, 1>("c.sub.assign");
        creg<T, c_div_assign, 1>("c.div.assign");
        creg<T, c_add_assign, 1>("c.add.assign");
        creg<T, c_mul_assign, 1>("c.mul.assign");
        creg<T, c_selfadd, 0>("c.selfadd");
        creg<T, c_selfsub, 0>("c.selfsub");
        creg<T, c_selfmul, 0>("c.selfmul");
        creg<T, c_selfmul_op, 0>("c.selfmul.op");
        creg<T, c_selfdiv, 0>("c.selfdiv");
        creg<T, c_selffma, 0>("c.selffma");
        creg<T, c_mul_assign_real, 1>("c.mul.assign.real");
        creg<T, c_div_real, 1>("c.div.real");
        creg<T, c_sub_real_l, 1>("c.sub.real.l");
        creg<T, c_real_ra, 2>("c.real.realarg");
        creg<T, c_imag_ra, 2>("c.imag.realarg");
        creg<T, c_conj_ra, 0>("c.conj.realarg");
        creg<T, c_proj_ra, 0>("c.proj.realarg");
        creg<T, c_norm_ra, 2>("c.norm.realarg");
        creg<T, c_arg_ra, 2>("c.arg.realarg");
        creg<T, c_get, 0>("c.get");
        creg<T, c_bcast, 0>("c.broadcast");
        creg<T, c_scalar_mul, 0>("c.mul.scalar");
        cmemreg<T, 0>("c.load_unaligned");
        cmemreg<T, 1>("c.load_aligned");
        cmemreg<T, 2>("c.store_unaligned");
        cmemreg<T, 3>("c.store_aligned");
    }
    void register_ops()
    {
        reg_c<float>();
        reg_c<double>();
    }
}
XV_MODULE("complex")
