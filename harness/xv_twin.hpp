// Twin element types: char, long long and unsigned long long are distinct C++ types with the size and signedness of
// int8_t, int64_t and uint64_t (on LP64 x86 the fixed-width names are signed char, long and unsigned long).  xsimd
// declares registers for them; wherever a kernel, a conversion fast path or a mask type is written in terms of a
// fixed-width name, the twin takes a different overload.  The harnesses register a core set of operations for the
// twins under the operation name + ".twin" (the explorer finds the reference model by stripping dot suffixes and
// the operand spaces by the type code, which is the sibling's).  Reported as <int8>/<int64>/<uint64> with ".twin".
#pragma once
#include <type_traits>
namespace xv
{
    static_assert(std::is_signed<char>::value && sizeof(long long) == 8, "twin type codes assume x86-64 Linux");
    static_assert(!std::is_same<long long, int64_t>::value && !std::is_same<char, int8_t>::value, "twins must be distinct types");
    template <>
    struct tcode<char>
    {
        static constexpr int value = XV_I8;
    };
    template <>
    struct tcode<long long>
    {
        static constexpr int value = XV_I64;
    };
    template <>
    struct tcode<unsigned long long>
    {
        static constexpr int value = XV_U64;
    };
    using twin_types = types<char, long long, unsigned long long>;
}
