// Header injected into xsimd through XSIMD_VERIF_HOOKS_HEADER (guard XSIMD_VERIF).
// Loop tick: counts iterations of the data-dependent while(any()) loops and aborts
// the call (siglongjmp back into the harness runner) when the cap is exceeded.
#pragma once
#include <csetjmp>
#include <cstdint>

namespace xv
{
    struct tick_state
    {
        unsigned long ticks;
        unsigned long cap;
        sigjmp_buf env;
    };
    extern thread_local tick_state tk;
    inline void tick()
    {
        if (++tk.ticks > tk.cap)
            siglongjmp(tk.env, 1);
    }
}
#define XSIMD_VERIF_LOOP_TICK() ::xv::tick()

#ifdef XV_HOOK_CPUID
// C15: CPUID / XGETBV answers come from the explorer's current configuration.
namespace xv
{
    struct cpu_config
    {
        uint32_t l1_ecx, l1_edx, l7_ebx, l7_ecx, l7_1_eax, l80000001_ecx;
        uint32_t xcr0;
        uint32_t xgetbv_calls; // number of XGETBV executions (must be 0 when OSXSAVE is clear)
        uint32_t cpuid_calls;
        uint32_t bad_leaf; // a leaf/subleaf the model does not know was asked for
    };
    extern thread_local cpu_config cpu;
    inline void cpuid(int reg[4], int level, int count)
    {
        ++cpu.cpuid_calls;
        reg[0] = reg[1] = reg[2] = reg[3] = 0;
        if (level == 0 && count == 0)
            reg[0] = 7; // highest basic leaf
        else if (level == 1 && count == 0)
        {
            reg[2] = (int)cpu.l1_ecx;
            reg[3] = (int)cpu.l1_edx;
        }
        else if (level == 7 && count == 0)
        {
            reg[0] = 1; // max subleaf
            reg[1] = (int)cpu.l7_ebx;
            reg[2] = (int)cpu.l7_ecx;
        }
        else if (level == 7 && count == 1)
            reg[0] = (int)cpu.l7_1_eax;
        else if ((unsigned)level == 0x80000000u)
            reg[0] = (int)0x80000001u;
        else if ((unsigned)level == 0x80000001u)
            reg[2] = (int)cpu.l80000001_ecx;
        else
            ++cpu.bad_leaf;
    }
    inline uint32_t xgetbv()
    {
        ++cpu.xgetbv_calls;
        return cpu.xcr0;
    }
}
#define XSIMD_VERIF_CPUID(reg, level, count) ::xv::cpuid(reg, level, count)
#define XSIMD_VERIF_XGETBV(xcr0) xcr0 = ::xv::xgetbv()
#define XSIMD_VERIF_NO_ARCH_CACHE 1
#endif
