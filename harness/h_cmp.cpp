// C03: comparisons, batch_bool algebra, mask()/from_mask, all/any/none/count, get, bool-array
// load/store, batch_bool_cast, conversion to 0/1 batches, select.  Every Boolean operation is run
// on masks of five provenances and observed five ways (depth-2 chaining, DESIGN.md C03).
#include "xv_harness.hpp"
#include "xv_twin.hpp"

#include <complex>

#include <deque>
#include <string>

namespace xv
{
    template <class T>
    struct twin; // same-width element type of the other kind
    template <> struct twin<int8_t> { using type = uint8_t; };
    template <> struct twin<uint8_t> { using type = int8_t; };
    template <> struct twin<int16_t> { using type = uint16_t; };
    template <> struct twin<uint16_t> { using type = int16_t; };
    template <> struct twin<int32_t> { using type = float; };
    template <> struct twin<uint32_t> { using type = int32_t; };
    template <> struct twin<int64_t> { using type = double; };
    template <> struct twin<uint64_t> { using type = int64_t; };
    template <> struct twin<float> { using type = uint32_t; };
    template <> struct twin<double> { using type = uint64_t; };
    template <> struct twin<char> { using type = uint8_t; };
    template <> struct twin<long long> { using type = double; };
    template <> struct twin<unsigned long long> { using type = long long; };

    // ---- provenances ----
    struct P_load
    {
        static constexpr const char* tag = "load";
        template <class T>
        static BB<T> make(const bool* p) { return BB<T>::load_unaligned(p); }
    };
    struct P_mask
    {
        static constexpr const char* tag = "frommask";
        template <class T>
        static BB<T> make(const bool* p)
        {
            uint64_t m = 0;
            for (size_t i = 0; i < BB<T>::size; ++i)
                m |= (uint64_t)(p[i] ? 1 : 0) << i;
            return BB<T>::from_mask(m);
        }
    };
    struct P_cmp
    {
        static constexpr const char* tag = "cmp";
        template <class T>
        static BB<T> make(const bool* p)
        {
            T buf[B<T>::size];
            for (size_t i = 0; i < B<T>::size; ++i)
                buf[i] = p[i] ? T(3) : T(1);
            return B<T>::load_unaligned(buf) > B<T>(T(2)); // a mask as a comparison kernel produces it
        }
    };
    struct P_cast
    {
        static constexpr const char* tag = "cast";
        template <class T>
        static BB<T> make(const bool* p)
        {
            using U = typename twin<T>::type;
            return xs::batch_bool_cast<T>(BB<U>::load_unaligned(p));
        }
    };
    struct P_ctor
    {
        static constexpr const char* tag = "ctor";
        template <class T, size_t... I>
        static BB<T> mk(const bool* p, std::index_sequence<I...>) { return BB<T>(p[I]...); }
        template <class T>
        static BB<T> make(const bool* p) { return mk<T>(p, std::make_index_sequence<BB<T>::size> {}); }
    };
    // ---- observations ----
    struct Q_store
    {
        template <class T>
        static void put(bool* o, BB<T> const& v) { v.store_unaligned(o); }
    };
    struct Q_mask
    {
        template <class T>
        static void put(bool* o, BB<T> const& v)
        {
            uint64_t m = v.mask();
            for (size_t i = 0; i < BB<T>::size; ++i)
                o[i] = (m >> i) & 1;
            if (BB<T>::size < 64 && (m >> BB<T>::size) != 0)
                *(uint8_t*)o = 2; // bits beyond the lane count must be clear
        }
    };
    struct Q_num
    {
        template <class T>
        static void put(bool* o, BB<T> const& v)
        {
            B<T> n(v); // 0/1 numeric batch
            T buf[B<T>::size];
            n.store_unaligned(buf);
            for (size_t i = 0; i < B<T>::size; ++i)
                ((uint8_t*)o)[i] = buf[i] == T(1) ? 1 : (buf[i] == T(0) ? 0 : 2);
        }
    };
    struct Q_cast
    {
        template <class T>
        static void put(bool* o, BB<T> const& v)
        {
            using U = typename twin<T>::type;
            xs::batch_bool_cast<U>(v).store_unaligned(o);
        }
    };
    struct Q_get
    {
        template <class T>
        static void put(bool* o, BB<T> const& v)
        {
            for (size_t i = 0; i < BB<T>::size; ++i)
                o[i] = v.get(i);
        }
    };

    template <class T, class P>
    struct PV
    {
    };
    template <class T, class Q>
    struct QV
    {
        BB<T> v;
        QV(BB<T> const& x)
            : v(x)
        {
        }
    };
    template <class T, class P>
    struct slot<PV<T, P>>
    {
        static constexpr int nout = 1;
        static constexpr int lanes = (int)B<T>::size;
        static void codes(int* c) { c[0] = XV_BOOL; }
        static BB<T> load(const void* p, size_t i) { return P::template make<T>((const bool*)p + i); }
    };
    template <class T, class Q>
    struct slot<QV<T, Q>>
    {
        static constexpr int nout = 1;
        static constexpr int lanes = (int)B<T>::size;
        static void codes(int* c) { c[0] = XV_BOOL; }
        static void store(void* const* out, size_t i, QV<T, Q> const& v) { Q::template put<T>((bool*)out[0] + i, v.v); }
    };

    // ---- Boolean algebra ----
    XV_OP1(m_id, a)
    XV_OP2(m_and, a& b)
    XV_OP2(m_or, a | b)
    XV_OP2(m_xor, a ^ b)
    XV_OP1(m_not, ~a)
    XV_OP1(m_lnot, !a)
    XV_OP2(m_eq, a == b)
    XV_OP2(m_ne, a != b)
    XV_OP2(m_andnot, xs::bitwise_andnot(a, b))
    XV_OP2(m_land, a&& b)
    XV_OP2(m_lor, a || b)
    XV_OP2(m_and_fn, xs::bitwise_and(a, b))
    XV_OP2(m_or_fn, xs::bitwise_or(a, b))
    XV_OP2(m_xor_fn, xs::bitwise_xor(a, b))
    XV_OP1(m_not_fn, xs::bitwise_not(a))
    XV_OP2(m_eq_fn, xs::eq(a, b))
    XV_OP2(m_ne_fn, xs::neq(a, b))
    struct m_and_assign
    {
        template <class T, class X>
        static X f(X a, X const& b, long) { a &= b; return a; }
    };
    struct m_or_assign
    {
        template <class T, class X>
        static X f(X a, X const& b, long) { a |= b; return a; }
    };
    struct m_xor_assign
    {
        template <class T, class X>
        static X f(X a, X const& b, long) { a ^= b; return a; }
    };
    // summaries
    struct m_all
    {
        template <class T, class X>
        static scalar_of<uint8_t, T> f(X const& a, long) { return { (uint8_t)xs::all(a) }; }
    };
    struct m_any
    {
        template <class T, class X>
        static scalar_of<uint8_t, T> f(X const& a, long) { return { (uint8_t)xs::any(a) }; }
    };
    struct m_none
    {
        template <class T, class X>
        static scalar_of<uint8_t, T> f(X const& a, long) { return { (uint8_t)xs::none(a) }; }
    };
    struct m_count
    {
        template <class T, class X>
        static scalar_of<uint32_t, T> f(X const& a, long) { return { (uint32_t)xs::count(a) }; }
    };
    struct m_maskval
    {
        template <class T, class X>
        static scalar_of<uint64_t, T> f(X const& a, long) { return { (uint64_t)a.mask() }; }
    };

    inline const char* keep(const std::string& s) // registered names must outlive the registry
    {
        static std::deque<std::string> names;
        names.push_back(s);
        return names.back().c_str();
    }

    template <class Op, class P, class Q, class T>
    void reg_m1(const std::string& n)
    {
        reg<Op, T, QV<T, Q>, PV<T, P>>("C03", keep(n + "." + P::tag));
    }
    template <class Op, class P, class Q, class T>
    void reg_m2(const std::string& n)
    {
        reg<Op, T, QV<T, Q>, PV<T, P>, PV<T, P>>("C03", keep(n + "." + P::tag));
    }
    template <class Op, class Out, class P, class T>
    void reg_ms(const std::string& n)
    {
        reg<Op, T, Out, PV<T, P>>("C03", keep(n + "." + P::tag));
    }
    template <class Op, class T>
    void reg_m1_all(const char* n)
    {
        reg_m1<Op, P_load, Q_store, T>(n);
        reg_m1<Op, P_mask, Q_mask, T>(n);
        reg_m1<Op, P_cmp, Q_num, T>(n);
        reg_m1<Op, P_cast, Q_cast, T>(n);
        reg_m1<Op, P_ctor, Q_get, T>(n);
    }
    template <class Op, class T>
    void reg_m2_all(const char* n)
    {
        reg_m2<Op, P_load, Q_store, T>(n);
        reg_m2<Op, P_mask, Q_mask, T>(n);
        reg_m2<Op, P_cmp, Q_num, T>(n);
        reg_m2<Op, P_cast, Q_cast, T>(n);
        reg_m2<Op, P_ctor, Q_get, T>(n);
    }
    template <class Op, class U, class T>
    void reg_ms_all(const char* n)
    {
        reg_ms<Op, scalar_of<U, T>, P_load, T>(n);
        reg_ms<Op, scalar_of<U, T>, P_mask, T>(n);
        reg_ms<Op, scalar_of<U, T>, P_cmp, T>(n);
        reg_ms<Op, scalar_of<U, T>, P_cast, T>(n);
        reg_ms<Op, scalar_of<U, T>, P_ctor, T>(n);
    }

    template <class T>
    void reg_masks()
    {
        reg_m1_all<m_id, T>("bid");
        reg_m1_all<m_not, T>("bnot");
        reg_m1_all<m_lnot, T>("blnot");
        reg_m1<m_not_fn, P_load, Q_store, T>("bnot.fn");
        reg_m2_all<m_and, T>("band");
        reg_m2_all<m_or, T>("bor");
        reg_m2_all<m_xor, T>("bxor");
        reg_m2_all<m_eq, T>("beq");
        reg_m2_all<m_ne, T>("bne");
        reg_m2_all<m_andnot, T>("bandnot");
        reg_m2_all<m_land, T>("bland");
        reg_m2_all<m_lor, T>("blor");
        reg_m2<m_and_fn, P_load, Q_store, T>("band.fn");
        reg_m2<m_or_fn, P_load, Q_store, T>("bor.fn");
        reg_m2<m_xor_fn, P_load, Q_store, T>("bxor.fn");
        reg_m2<m_eq_fn, P_load, Q_store, T>("beq.fn");
        reg_m2<m_ne_fn, P_load, Q_store, T>("bne.fn");
        reg_m2<m_and_assign, P_mask, Q_store, T>("band.assign");
        reg_m2<m_or_assign, P_mask, Q_store, T>("bor.assign");
        reg_m2<m_xor_assign, P_mask, Q_store, T>("bxor.assign");
        reg_ms_all<m_all, uint8_t, T>("ball");
        reg_ms_all<m_any, uint8_t, T>("bany");
        reg_ms_all<m_none, uint8_t, T>("bnone");
        reg_ms_all<m_count, uint32_t, T>("bcount");
        reg_ms_all<m_maskval, uint64_t, T>("bmask");
    }

    // ---- comparisons and select on value spaces ----
    XV_OP2(c_eq, a == b)
    XV_OP2(c_ne, a != b)
    XV_OP2(c_lt, a < b)
    XV_OP2(c_le, a <= b)
    XV_OP2(c_gt, a > b)
    XV_OP2(c_ge, a >= b)
    XV_OP2(c_eq_fn, xs::eq(a, b))
    XV_OP2(c_ne_fn, xs::neq(a, b))
    XV_OP2(c_lt_fn, xs::lt(a, b))
    XV_OP2(c_le_fn, xs::le(a, b))
    XV_OP2(c_gt_fn, xs::gt(a, b))
    XV_OP2(c_ge_fn, xs::ge(a, b))
    XV_SCALAR_CMP(c_eq_rs, x == s, false)
    XV_SCALAR_CMP(c_eq_ls, s == x, true)
    XV_SCALAR_CMP(c_ne_rs, x != s, false)
    XV_SCALAR_CMP(c_ne_ls, s != x, true)
    XV_SCALAR_CMP(c_lt_rs, x < s, false)
    XV_SCALAR_CMP(c_lt_ls, s < x, true)
    XV_SCALAR_CMP(c_le_rs, x <= s, false)
    XV_SCALAR_CMP(c_le_ls, s <= x, true)
    XV_SCALAR_CMP(c_gt_rs, x > s, false)
    XV_SCALAR_CMP(c_gt_ls, s > x, true)
    XV_SCALAR_CMP(c_ge_rs, x >= s, false)
    XV_SCALAR_CMP(c_ge_ls, s >= x, true)
    XV_OP3(c_select, xs::select(a, b, c))
    // select on complex batches (floating-point T): the real and the imaginary parts must both come from the chosen branch
    template <class T>
    using CBt = xs::batch<std::complex<T>, arch>;
    struct c_select_cre
    {
        template <class T, class X, class Y, class Z>
        static Y f(X const& m, Y const& b, Z const& c, long) { return xs::select(m, CBt<T>(b, c), CBt<T>(c, b)).real(); }
    };
    struct c_select_cim
    {
        template <class T, class X, class Y, class Z>
        static Y f(X const& m, Y const& b, Z const& c, long) { return xs::select(m, CBt<T>(c, b), CBt<T>(b, c)).imag(); }
    };

    // select with a compile-time mask: 136 masks per lane count (one-hot and all-but-one for every lane position
    // modulo the lane count, alternating, halves, quarters, pairs, a pseudo-random pattern, all, none)
    constexpr bool cmask(size_t K, size_t i, size_t n)
    {
        return K < 64 ? (i == K % n) : K < 128 ? (i != (K - 64) % n)
            : K == 128                         ? (i % 2 == 0)
            : K == 129                         ? (i < n / 2)
            : K == 130                         ? (i >= n / 2)
            : K == 131                         ? (i % 4 < 2)
            : K == 132                         ? ((i / (n >= 8 ? n / 4 : 1)) % 2 == 0)
            : K == 133                         ? ((i * 7 + 3) % 5 < 2)
            : K == 134                         ? true
                                               : false;
    }
    template <size_t K>
    struct cgen
    {
        static constexpr bool get(size_t i, size_t n) { return cmask(K, i, n); }
    };
    template <class T, size_t K>
    B<T> selc(B<T> const& a, B<T> const& b) { return xs::select(xs::make_batch_bool_constant<T, cgen<K>, arch>(), a, b); }
    template <class T, size_t... K>
    B<T> selc_at(B<T> const& a, B<T> const& b, size_t k, std::index_sequence<K...>)
    {
        typedef B<T> (*fn)(B<T> const&, B<T> const&);
        static const fn t[] = { &selc<T, K>... };
        return t[k % sizeof...(K)](a, b);
    }
    struct c_select_const
    {
        template <class T, class X>
        static X f(X const& a, X const& b, long p) { return selc_at<T>(a, b, (size_t)p, std::make_index_sequence<136> {}); }
    };

    template <class Op, class Q, class T>
    void reg_cmpq(const char* n) { reg<Op, T, QV<T, Q>, B<T>, B<T>>("C03", n); }

    template <class T>
    void reg_cmps()
    {
        reg_cmpq<c_eq, Q_store, T>("eq");
        reg_cmpq<c_ne, Q_store, T>("ne");
        reg_cmpq<c_lt, Q_store, T>("lt");
        reg_cmpq<c_le, Q_store, T>("le");
        reg_cmpq<c_gt, Q_store, T>("gt");
        reg_cmpq<c_ge, Q_store, T>("ge");
        reg_cmpq<c_eq_rs, Q_store, T>("eq.rs");
        reg_cmpq<c_eq_ls, Q_store, T>("eq.ls");
        reg_cmpq<c_ne_rs, Q_store, T>("ne.rs");
        reg_cmpq<c_ne_ls, Q_store, T>("ne.ls");
        reg_cmpq<c_lt_rs, Q_store, T>("lt.rs");
        reg_cmpq<c_lt_ls, Q_store, T>("lt.ls");
        reg_cmpq<c_le_rs, Q_store, T>("le.rs");
        reg_cmpq<c_le_ls, Q_store, T>("le.ls");
        reg_cmpq<c_gt_rs, Q_store, T>("gt.rs");
        reg_cmpq<c_gt_ls, Q_store, T>("gt.ls");
        reg_cmpq<c_ge_rs, Q_store, T>("ge.rs");
        reg_cmpq<c_ge_ls, Q_store, T>("ge.ls");
        reg_cmpq<c_eq_fn, Q_mask, T>("eq.fn");
        reg_cmpq<c_ne_fn, Q_mask, T>("ne.fn");
        reg_cmpq<c_lt_fn, Q_mask, T>("lt.fn");
        reg_cmpq<c_le_fn, Q_mask, T>("le.fn");
        reg_cmpq<c_gt_fn, Q_mask, T>("gt.fn");
        reg_cmpq<c_ge_fn, Q_mask, T>("ge.fn");
        reg_cmpq<c_lt, Q_num, T>("lt.num");
        reg_cmpq<c_ge, Q_get, T>("ge.get");
        reg_cmpq<c_eq, Q_cast, T>("eq.cast");
        reg<c_select, T, B<T>, BB<T>, B<T>, B<T>>("C03", "select");
        reg<c_select, T, B<T>, PV<T, P_mask>, B<T>, B<T>>("C03", "select.frommask");
        reg<c_select, T, B<T>, PV<T, P_cmp>, B<T>, B<T>>("C03", "select.cmp");
        reg<c_select, T, B<T>, PV<T, P_cast>, B<T>, B<T>>("C03", "select.cast");
        reg<c_select_const, T, B<T>, B<T>, B<T>>("C03", "select_const");
        if constexpr (std::is_floating_point<T>::value)
        {
            reg<c_select_cre, T, B<T>, BB<T>, B<T>, B<T>>("C03", "select.complex.re");
            reg<c_select_cim, T, B<T>, BB<T>, B<T>, B<T>>("C03", "select.complex.im");
        }
    }

    template <class... T>
    void reg_all(types<T...>)
    {
        (reg_masks<T>(), ...);
        (reg_cmps<T>(), ...);
    }

    // twin element types (xv_twin.hpp): the six comparisons, select and one mask of each provenance
    template <class T>
    void reg_twin()
    {
        reg_cmpq<c_eq, Q_store, T>("eq.twin");
        reg_cmpq<c_ne, Q_store, T>("ne.twin");
        reg_cmpq<c_lt, Q_store, T>("lt.twin");
        reg_cmpq<c_le, Q_store, T>("le.twin");
        reg_cmpq<c_gt, Q_store, T>("gt.twin");
        reg_cmpq<c_ge, Q_store, T>("ge.twin");
        reg_cmpq<c_lt_fn, Q_mask, T>("lt.fn.twin");
        reg_cmpq<c_ge, Q_num, T>("ge.num.twin");
        reg_cmpq<c_eq_rs, Q_store, T>("eq.rs.twin");
        reg_cmpq<c_gt_ls, Q_store, T>("gt.ls.twin");
        reg<c_select, T, B<T>, BB<T>, B<T>, B<T>>("C03", "select.twin");
        reg<c_select, T, B<T>, PV<T, P_cmp>, B<T>, B<T>>("C03", "select.cmp.twin");
        reg<c_select_const, T, B<T>, B<T>, B<T>>("C03", "select_const.twin");
        reg_m1_all<m_id, T>("bid.twin");
        reg_m1<m_not, P_load, Q_store, T>("bnot.twin");
        reg_m2<m_xor, P_mask, Q_mask, T>("bxor.twin");
        reg_m2<m_and, P_load, Q_store, T>("band.twin");
        reg_ms<m_count, scalar_of<uint32_t, T>, P_load, T>("bcount.twin");
        reg_ms<m_maskval, scalar_of<uint64_t, T>, P_cmp, T>("bmask.twin");
    }
    template <class... T>
    void reg_twins(types<T...>) { (reg_twin<T>(), ...); }

    void register_ops()
    {
        reg_all(all_types {});
        reg_twins(twin_types {});
    }
}
XV_MODULE("cmp")
