// C09: reductions (reduce_add / reduce_max / reduce_min / generic reduce(f, x) / haddp).
// Scalar results are replicated to every lane position of the batch they were computed from.
#include "xv_harness.hpp"
#include "xv_twin.hpp"

namespace xv
{
    struct r_add
    {
        template <class T, class X>
        static scalar_of<T, T> f(X const& a, long) { return { xs::reduce_add(a) }; }
    };
    struct r_max
    {
        template <class T, class X>
        static scalar_of<T, T> f(X const& a, long) { return { xs::reduce_max(a) }; }
    };
    struct r_min
    {
        template <class T, class X>
        static scalar_of<T, T> f(X const& a, long) { return { xs::reduce_min(a) }; }
    };
    struct r_gen_add
    {
        template <class T, class X>
        static scalar_of<T, T> f(X const& a, long)
        {
            return { xs::reduce([](X const& x, X const& y) { return x + y; }, a) };
        }
    };
    struct r_gen_max
    {
        template <class T, class X>
        static scalar_of<T, T> f(X const& a, long)
        {
            return { xs::reduce([](X const& x, X const& y) { return xs::max(x, y); }, a) };
        }
    };
    struct r_gen_min
    {
        template <class T, class X>
        static scalar_of<T, T> f(X const& a, long)
        {
            return { xs::reduce([](X const& x, X const& y) { return xs::min(x, y); }, a) };
        }
    };
    struct r_gen_xor
    {
        template <class T, class X>
        static scalar_of<T, T> f(X const& a, long)
        {
            return { xs::reduce([](X const& x, X const& y) { return x ^ y; }, a) };
        }
    };

    // haddp: groups of lanes*lanes elements = `lanes` rows; the result batch is written at every row position
    template <class T>
    int run_haddp(const void* const* in, void* const* out, size_t n, xv_ctx*)
    {
        constexpr size_t L = B<T>::size;
        const T* p = (const T*)in[0];
        T* o = (T*)out[0];
        for (size_t g = 0; g + L * L <= n; g += L * L)
        {
            B<T> rows[L];
            for (size_t r = 0; r < L; ++r)
                rows[r] = B<T>::load_unaligned(p + g + r * L);
            B<T> res = xs::haddp(rows);
            for (size_t r = 0; r < L; ++r)
                res.store_unaligned(o + g + r * L);
        }
        return 0;
    }
    template <class T>
    void reg_haddp()
    {
        xv_op o;
        std::memset(&o, 0, sizeof o);
        o.prop = "C09";
        o.name = "haddp";
        o.elem = tcode<T>::value;
        o.nin = 1;
        o.in_t[0] = tcode<T>::value;
        o.nout = 1;
        o.out_t[0] = tcode<T>::value;
        o.lanes = (int)B<T>::size;
        o.fn = &run_haddp<T>;
        registry().push_back(o);
    }

    template <class Op, class... T>
    void reg_r(const char* n, types<T...>) { (reg<Op, T, scalar_of<T, T>, B<T>>("C09", n), ...); }

    // the generic reducer needs a constant-mask swizzle, which not every (architecture, type) provides
    XV_FEATURE(reduce_generic)
    template <class T>
    void feature_reduce_generic()
    {
        reg<r_gen_add, T, scalar_of<T, T>, B<T>>("C09", "reduce_add.generic");
        reg<r_gen_max, T, scalar_of<T, T>, B<T>>("C09", "reduce_max.generic");
        reg<r_gen_min, T, scalar_of<T, T>, B<T>>("C09", "reduce_min.generic");
        if constexpr (std::is_integral<T>::value)
            reg<r_gen_xor, T, scalar_of<T, T>, B<T>>("C09", "reduce_xor.generic");
    }
    template <class... T>
    void reg_generic(types<T...>) { (maybe_reduce_generic<T>(), ...); }

    void register_ops()
    {
#ifndef XV_PROBING
        all_types at;
        reg_r<r_add>("reduce_add", at);
        reg_r<r_max>("reduce_max", at);
        reg_r<r_min>("reduce_min", at);
        reg_haddp<float>();
        reg_haddp<double>();
        // twin element types (xv_twin.hpp); reduce_max/reduce_min of long long / unsigned long long are not accepted by the
        // library (their generic kernel needs a swizzle with a batch_constant<unsigned long long> mask, and the kernels name uint64_t)
        reg_r<r_add>("reduce_add.twin", twin_types {});
        reg_r<r_max>("reduce_max.twin", types<char> {});
        reg_r<r_min>("reduce_min.twin", types<char> {});
#endif
        reg_generic(all_types {});
    }
}
XV_PROBE_INSTANTIATE
XV_MODULE("red")
