// C17: the scalar overloads xsimd provides for generic code and loop remainders, run through the same
// array ABI (one element per "batch") and judged by the same reference models as the batch lanes.
#include "xv_harness.hpp"

#include <deque>
#include <string>

namespace xv
{
    inline const char* keep(const std::string& s)
    {
        static std::deque<std::string> names;
        names.push_back(s);
        return names.back().c_str();
    }
    template <class U>
    struct SV
    {
        U v;
        SV(U x)
            : v(x)
        {
        }
    };
    template <class U>
    struct slot<SV<U>>
    {
        static constexpr int nout = 1;
        static constexpr int lanes = 1;
        static void codes(int* c) { c[0] = tcode<U>::value; }
        static U load(const void* p, size_t i) { return ((const U*)p)[i]; }
        static void store(void* const* out, size_t i, SV<U> const& s) { ((U*)out[0])[i] = s.v; }
    };
    struct SB
    {
        bool v;
        SB(bool x)
            : v(x)
        {
        }
    };
    template <>
    struct slot<SB>
    {
        static constexpr int nout = 1;
        static constexpr int lanes = 1;
        static void codes(int* c) { c[0] = XV_BOOL; }
        static bool load(const void* p, size_t i) { return ((const uint8_t*)p)[i] != 0; }
        static void store(void* const* out, size_t i, SB const& s) { ((uint8_t*)out[0])[i] = s.v ? 1 : 0; }
    };

    XV_OP2(s_add, xs::add(a, b))
    XV_OP2(s_sub, xs::sub(a, b))
    XV_OP2(s_mul, xs::mul(a, b))
    XV_OP2(s_div, xs::div(a, b))
    XV_OP2(s_mod, xs::mod(a, b))
    XV_OP1(s_neg, xs::neg(a))
    XV_OP1(s_abs, xs::abs(a))
    XV_OP2(s_min, xs::min(a, b))
    XV_OP2(s_max, xs::max(a, b))
    XV_OP2(s_sadd, xs::sadd(a, b))
    XV_OP2(s_ssub, xs::ssub(a, b))
    XV_OP2(s_avg, xs::avg(a, b))
    XV_OP2(s_avgr, xs::avgr(a, b))
    XV_OP1(s_incr, xs::incr(a))
    XV_OP1(s_decr, xs::decr(a))
    XV_OP2(s_incr_if, xs::incr_if(a, b))
    XV_OP2(s_decr_if, xs::decr_if(a, b))
    XV_OP2(s_and, xs::bitwise_and(a, b))
    XV_OP2(s_or, xs::bitwise_or(a, b))
    XV_OP2(s_xor, xs::bitwise_xor(a, b))
    XV_OP1(s_not, xs::bitwise_not(a))
    XV_OP2(s_andnot, xs::bitwise_andnot(a, b))
    XV_OP1(s_shl_s, xs::bitwise_lshift(a, (int)p))
    XV_OP1(s_shr_s, xs::bitwise_rshift(a, (int)p))
    XV_OP2(s_shl_v, xs::bitwise_lshift(a, b))
    XV_OP2(s_shr_v, xs::bitwise_rshift(a, b))
    XV_OP1(s_rotl_s, xs::rotl(a, (int)p))
    XV_OP1(s_rotr_s, xs::rotr(a, (int)p))
    XV_OP2(s_rotl_v, xs::rotl(a, b))
    XV_OP2(s_rotr_v, xs::rotr(a, b))
    XV_OP2(s_eq, xs::eq(a, b))
    XV_OP2(s_ne, xs::neq(a, b))
    XV_OP2(s_lt, xs::lt(a, b))
    XV_OP2(s_le, xs::le(a, b))
    XV_OP2(s_gt, xs::gt(a, b))
    XV_OP2(s_ge, xs::ge(a, b))
    XV_OP3(s_select, xs::select(a, b, c))
    XV_OP1(s_is_flint, xs::is_flint(a))
    XV_OP1(s_is_even, xs::is_even(a))
    XV_OP1(s_is_odd, xs::is_odd(a))
    XV_OP3(s_fma, xs::fma(a, b, c))
    XV_OP3(s_fms, xs::fms(a, b, c))
    XV_OP3(s_fnma, xs::fnma(a, b, c))
    XV_OP3(s_fnms, xs::fnms(a, b, c))
    XV_OP1(s_nearbyint_as_int, xs::nearbyint_as_int(a))
    XV_OP3(s_clip, xs::clip(a, b, c))
    XV_OP1(s_ipow, xs::pow(a, (int)p))
    template <class To>
    struct s_bitcast
    {
        template <class T, class X>
        static To f(X const& a, long) { return xs::bitwise_cast<To>(a); }
    };
    // the batch forms that have no check of their own elsewhere (lane 0 .. n-1 of the batch kernel)
    XV_OP3(b_clip, xs::clip(a, b, c))
    XV_OP1(b_ipow, xs::pow(a, (int)p))

    template <class T>
    void reg_common()
    {
        using S = SV<T>;
        reg<s_add, T, S, S, S>("C17", "add");
        reg<s_sub, T, S, S, S>("C17", "sub");
        reg<s_mul, T, S, S, S>("C17", "mul");
        reg<s_div, T, S, S, S>("C17", "div");
        reg<s_neg, T, S, S>("C17", "neg");
        reg<s_abs, T, S, S>("C17", "abs");
        reg<s_min, T, S, S, S>("C17", "min");
        reg<s_max, T, S, S, S>("C17", "max");
        reg<s_incr, T, S, S>("C17", "incr");
        reg<s_decr, T, S, S>("C17", "decr");
        reg<s_incr_if, T, S, S, SB>("C17", "incr_if");
        reg<s_decr_if, T, S, S, SB>("C17", "decr_if");
        reg<s_and, T, S, S, S>("C17", "and");
        reg<s_or, T, S, S, S>("C17", "or");
        reg<s_xor, T, S, S, S>("C17", "xor");
        reg<s_not, T, S, S>("C17", "not");
        reg<s_andnot, T, S, S, S>("C17", "andnot");
        reg<s_eq, T, SB, S, S>("C17", "eq");
        reg<s_ne, T, SB, S, S>("C17", "ne");
        reg<s_lt, T, SB, S, S>("C17", "lt");
        reg<s_le, T, SB, S, S>("C17", "le");
        reg<s_gt, T, SB, S, S>("C17", "gt");
        reg<s_ge, T, SB, S, S>("C17", "ge");
        reg<s_select, T, S, SB, S, S>("C17", "select");
        reg<s_fma, T, S, S, S, S>("C17", "fma");
        reg<s_fms, T, S, S, S, S>("C17", "fms");
        reg<s_fnma, T, S, S, S, S>("C17", "fnma");
        reg<s_fnms, T, S, S, S, S>("C17", "fnms");
        reg<s_clip, T, S, S, S, S>("C17", "clip");
        reg<b_clip, T, B<T>, B<T>, B<T>, B<T>>("C17", "clip.batch");
    }
    template <class T>
    void reg_int()
    {
        using S = SV<T>;
        reg<s_mod, T, S, S, S>("C17", "mod");
        reg<s_sadd, T, S, S, S>("C17", "sadd");
        reg<s_ssub, T, S, S, S>("C17", "ssub");
        reg<s_avg, T, S, S, S>("C17", "avg");
        reg<s_avgr, T, S, S, S>("C17", "avgr");
        reg<s_shl_s, T, S, S>("C17", "shl.s");
        reg<s_shr_s, T, S, S>("C17", "shr.s");
        reg<s_shl_v, T, S, S, S>("C17", "shl.v");
        reg<s_shr_v, T, S, S, S>("C17", "shr.v");
        reg<s_rotl_s, T, S, S>("C17", "rotl.s");
        reg<s_rotr_s, T, S, S>("C17", "rotr.s");
        reg<s_rotl_v, T, S, S, S>("C17", "rotl.v");
        reg<s_rotr_v, T, S, S, S>("C17", "rotr.v");
    }
    template <class T>
    void reg_fp()
    {
        using S = SV<T>;
        using I = xs::as_integer_t<T>;
        using U = typename std::make_unsigned<I>::type;
        reg<s_is_flint, T, SB, S>("C17", "is_flint");
        reg<s_is_even, T, SB, S>("C17", "is_even");
        reg<s_is_odd, T, SB, S>("C17", "is_odd");
        reg<s_nearbyint_as_int, T, SV<I>, S>("C17", "nearbyint_as_int");
        reg<s_ipow, T, S, S>("C17", "ipow");
        reg<b_ipow, T, B<T>, B<T>>("C17", "ipow.batch");
        reg<s_bitcast<I>, I, SV<I>, S>("C17", keep(std::string("bitwise_cast.scalar.") + xv_type_name[tcode<T>::value]));
        reg<s_bitcast<U>, U, SV<U>, S>("C17", keep(std::string("bitwise_cast.scalar.") + xv_type_name[tcode<T>::value]));
        reg<s_bitcast<T>, T, S, SV<I>>("C17", keep(std::string("bitwise_cast.scalar.") + xv_type_name[tcode<I>::value]));
        reg<s_bitcast<T>, T, S, SV<U>>("C17", keep(std::string("bitwise_cast.scalar.") + xv_type_name[tcode<U>::value]));
    }
    template <class... T>
    void reg_all_common(types<T...>) { (reg_common<T>(), ...); }
    template <class... T>
    void reg_all_int(types<T...>) { (reg_int<T>(), ...); }

    void register_ops()
    {
        reg_all_common(all_types {});
        reg_all_int(int_types {});
        reg_fp<float>();
        reg_fp<double>();
    }
}
XV_MODULE("scalar")
