// C10/C11/C12/C13/C14/C17: the elementary functions of one architecture (float and double), with the
// loop-tick hook armed so that a call whose data-dependent loops exceed the cap is aborted and reported.
#define XV_TICKED 1
#include "xv_harness.hpp"
#include <limits>

namespace xv
{
#define XV_M1(NAME) XV_OP1(m_##NAME, xs::NAME(a))
    XV_M1(sqrt)
    XV_M1(exp)
    XV_M1(exp2)
    XV_M1(exp10)
    XV_M1(expm1)
    XV_M1(log)
    XV_M1(log2)
    XV_M1(log10)
    XV_M1(log1p)
    XV_M1(sin)
    XV_M1(cos)
    XV_M1(tan)
    XV_M1(asin)
    XV_M1(acos)
    XV_M1(atan)
    XV_M1(sinh)
    XV_M1(cosh)
    XV_M1(tanh)
    XV_M1(asinh)
    XV_M1(acosh)
    XV_M1(atanh)
    XV_M1(cbrt)
    XV_M1(erf)
    XV_M1(erfc)
    XV_M1(tgamma)
    XV_M1(lgamma)
    XV_M1(fabs)
    XV_M1(abs)
    XV_M1(rint)
    XV_M1(nearbyint)
    XV_M1(rsqrt)
    XV_M1(reciprocal)
    XV_OP2(m_atan2, xs::atan2(a, b))
    XV_OP2(m_hypot, xs::hypot(a, b))
    XV_OP2(m_pow, xs::pow(a, b))
    XV_OP2(m_fmod, xs::fmod(a, b))
    XV_OP2(m_remainder, xs::remainder(a, b))
    XV_OP2(m_fdim, xs::fdim(a, b))
    XV_OP2(m_fmin, xs::fmin(a, b))
    XV_OP2(m_fmax, xs::fmax(a, b))
    // pow with an integer exponent (C14: the square-and-multiply loop must end for every exponent of every integer
    // type). The second operand carries an index into the exponent table of that type; one call serves one batch, so
    // the exponent is the one named by lane 0.
    template <class I>
    inline I ipow_exponent(int k)
    {
        using L = std::numeric_limits<I>;
        static const I tab[40] = { (I)0, (I)1, (I)-1, (I)2, (I)-2, (I)3, (I)-3, (I)4, (I)5, (I)7, (I)8, (I)15, (I)16, (I)17, (I)31, (I)32, (I)33, (I)63, (I)64, (I)65,
                                   (I)100, (I)-100, (I)127, (I)128, (I)255, (I)256, (I)1000, (I)-1000, (I)32767, (I)-32768, L::max(), L::min(), (I)(L::max() - 1), (I)(L::min() + 1),
                                   (I)(L::min() / 2), (I)(L::max() / 2), (I)(L::max() / 2 + 1), (I)(L::min() / 2 - 1), (I)-7, (I)-64 };
        return tab[(k < 0 || k >= 40) ? 0 : k];
    }
#define XV_IPOW(NAME, I) XV_OP2(m_ipow_##NAME, xs::pow(a, ipow_exponent<I>((int)b.get(0))))
    XV_IPOW(i16, int16_t)
    XV_IPOW(i32, int32_t)
    XV_IPOW(i64, int64_t)
    XV_IPOW(u16, uint16_t)
    XV_IPOW(u32, uint32_t)
    XV_IPOW(u64, uint64_t)
    struct m_sincos
    {
        template <class T, class X>
        static std::pair<X, X> f(X const& a, long) { return xs::sincos(a); }
    };

    // scalar overloads of the same functions (C17: agreement within the accuracy bound)
#define XV_S1(NAME)                                                     \
    template <class T>                                                  \
    int s_run_##NAME(const void* const* in, void* const* out, size_t n, xv_ctx*) \
    {                                                                   \
        const T* p = (const T*)in[0];                                   \
        T* o = (T*)out[0];                                              \
        for (size_t i = 0; i < n; ++i)                                  \
            o[i] = xs::NAME(p[i]);                                      \
        return 0;                                                       \
    }
    XV_S1(exp)
    XV_S1(exp2)
    XV_S1(exp10)
    XV_S1(expm1)
    XV_S1(log)
    XV_S1(log2)
    XV_S1(log10)
    XV_S1(log1p)
    XV_S1(sin)
    XV_S1(cos)
    XV_S1(tan)
    XV_S1(asin)
    XV_S1(acos)
    XV_S1(atan)
    XV_S1(sinh)
    XV_S1(cosh)
    XV_S1(tanh)
    XV_S1(asinh)
    XV_S1(acosh)
    XV_S1(atanh)
    XV_S1(cbrt)
    XV_S1(erf)
    XV_S1(erfc)
    XV_S1(tgamma)
    XV_S1(lgamma)
    XV_S1(sqrt)

    template <class T>
    void reg_scalar(const char* name, xv_fn fn)
    {
        xv_op o;
        std::memset(&o, 0, sizeof o);
        o.prop = "C17";
        o.name = name;
        o.elem = tcode<T>::value;
        o.nin = 1;
        o.in_t[0] = tcode<T>::value;
        o.nout = 1;
        o.out_t[0] = tcode<T>::value;
        o.lanes = 1;
        o.fn = fn;
        registry().push_back(o);
    }

    template <class T>
    void reg_math()
    {
        using X = B<T>;
#define XV_RM(NAME) reg<m_##NAME, T, X, X>("M", #NAME);
        XV_RM(sqrt)
        XV_RM(exp)
        XV_RM(exp2)
        XV_RM(exp10)
        XV_RM(expm1)
        XV_RM(log)
        XV_RM(log2)
        XV_RM(log10)
        XV_RM(log1p)
        XV_RM(sin)
        XV_RM(cos)
        XV_RM(tan)
        XV_RM(asin)
        XV_RM(acos)
        XV_RM(atan)
        XV_RM(sinh)
        XV_RM(cosh)
        XV_RM(tanh)
        XV_RM(asinh)
        XV_RM(acosh)
        XV_RM(atanh)
        XV_RM(cbrt)
        XV_RM(erf)
        XV_RM(erfc)
        XV_RM(tgamma)
        XV_RM(lgamma)
        XV_RM(fabs)
        XV_RM(abs)
        XV_RM(rint)
        XV_RM(nearbyint)
        XV_RM(rsqrt)
        XV_RM(reciprocal)
        reg<m_atan2, T, X, X, X>("M", "atan2");
        reg<m_hypot, T, X, X, X>("M", "hypot");
        reg<m_pow, T, X, X, X>("M", "pow");
        reg<m_fmod, T, X, X, X>("M", "fmod");
        reg<m_remainder, T, X, X, X>("M", "remainder");
        reg<m_fdim, T, X, X, X>("M", "fdim");
        reg<m_fmin, T, X, X, X>("M", "fmin");
        reg<m_fmax, T, X, X, X>("M", "fmax");
        reg<m_sincos, T, std::pair<X, X>, X>("M", "sincos");
        reg<m_ipow_i16, T, X, X, X>("M", "ipow.i16");
        reg<m_ipow_i32, T, X, X, X>("M", "ipow.i32");
        reg<m_ipow_i64, T, X, X, X>("M", "ipow.i64");
        reg<m_ipow_u16, T, X, X, X>("M", "ipow.u16");
        reg<m_ipow_u32, T, X, X, X>("M", "ipow.u32");
        reg<m_ipow_u64, T, X, X, X>("M", "ipow.u64");
#define XV_RS(NAME) reg_scalar<T>(#NAME, &s_run_##NAME<T>);
        XV_RS(exp)
        XV_RS(exp2)
        XV_RS(exp10)
        XV_RS(expm1)
        XV_RS(log)
        XV_RS(log2)
        XV_RS(log10)
        XV_RS(log1p)
        XV_RS(sin)
        XV_RS(cos)
        XV_RS(tan)
        XV_RS(asin)
        XV_RS(acos)
        XV_RS(atan)
        XV_RS(sinh)
        XV_RS(cosh)
        XV_RS(tanh)
        XV_RS(asinh)
        XV_RS(acosh)
        XV_RS(atanh)
        XV_RS(cbrt)
        XV_RS(erf)
        XV_RS(erfc)
        XV_RS(tgamma)
        XV_RS(lgamma)
        XV_RS(sqrt)
    }

    void register_ops()
    {
        reg_math<float>();
        reg_math<double>();
    }
}
XV_MODULE("math")
