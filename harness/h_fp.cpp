// C02 (basic floating point) and C08 (rounding) kernels of one architecture.
#include "xv_harness.hpp"

namespace xv
{
    XV_OP2(op_add, a + b)
    XV_OP2(op_add_fn, xs::add(a, b))
    XV_OP2(op_sub, a - b)
    XV_OP2(op_sub_fn, xs::sub(a, b))
    XV_OP2(op_mul, a* b)
    XV_OP2(op_mul_fn, xs::mul(a, b))
    XV_OP2(op_div, a / b)
    XV_OP2(op_div_fn, xs::div(a, b))
    XV_OP1(op_sqrt, xs::sqrt(a))
    XV_OP1(op_neg, -a)
    XV_OP1(op_neg_fn, xs::neg(a))
    XV_OP1(op_abs, xs::abs(a))
    XV_OP1(op_fabs, xs::fabs(a))
    XV_OP2(op_copysign, xs::copysign(a, b))
    XV_OP2(op_and, a& b)
    XV_OP2(op_or, a | b)
    XV_OP2(op_xor, a ^ b)
    XV_OP1(op_not, ~a)
    XV_OP2(op_andnot, xs::bitwise_andnot(a, b))
    XV_OP3(op_fma, xs::fma(a, b, c))
    XV_OP3(op_fms, xs::fms(a, b, c))
    XV_OP3(op_fnma, xs::fnma(a, b, c))
    XV_OP3(op_fnms, xs::fnms(a, b, c))
    XV_OP2(op_min, xs::min(a, b))
    XV_OP2(op_max, xs::max(a, b))
    XV_OP1(op_isnan, xs::isnan(a))
    XV_OP1(op_isinf, xs::isinf(a))
    XV_OP1(op_isfinite, xs::isfinite(a))
    XV_OP1(op_is_flint, xs::is_flint(a))
    XV_OP1(op_is_even, xs::is_even(a))
    XV_OP1(op_is_odd, xs::is_odd(a))
    XV_OP1(op_sign, xs::sign(a))
    XV_OP1(op_signnz, xs::signnz(a))
    XV_OP1(op_bitofsign, xs::bitofsign(a))
    XV_OP2(op_nextafter, xs::nextafter(a, b))
    XV_OP2(op_ldexp, xs::ldexp(a, b))
    struct op_frexp
    {
        template <class T, class X>
        static std::pair<X, B<xs::as_integer_t<T>>> f(X const& a, long)
        {
            B<xs::as_integer_t<T>> e;
            X m = xs::frexp(a, e);
            return { m, e };
        }
    };
    // the same object on both sides of an operator / in every argument slot
#define XV_SELF(NAME, STMT)                          \
    struct NAME                                      \
    {                                                \
        template <class T, class X>                  \
        static X f(X a, long) { STMT; return a; }    \
    };
    XV_SELF(op_selfadd, a += a)
    XV_SELF(op_selfsub, a -= a)
    XV_SELF(op_selfmul, a *= a)
    XV_SELF(op_selfmul_op, a = a * a)
    XV_SELF(op_selfdiv, a /= a)
    XV_SELF(op_selfand, a &= a)
    XV_SELF(op_selfor, a |= a)
    XV_SELF(op_selffma, a = xs::fma(a, a, a))
    struct op_add_assign
    {
        template <class T, class X>
        static X f(X a, X const& b, long) { a += b; return a; }
    };
    struct op_div_assign
    {
        template <class T, class X>
        static X f(X a, X const& b, long) { a /= b; return a; }
    };
    struct op_sub_assign
    {
        template <class T, class X>
        static X f(X a, X const& b, long) { a -= b; return a; }
    };
    struct op_mul_assign
    {
        template <class T, class X>
        static X f(X a, X const& b, long) { a *= b; return a; }
    };
    struct op_and_assign
    {
        template <class T, class X>
        static X f(X a, X const& b, long) { a &= b; return a; }
    };
    struct op_or_assign
    {
        template <class T, class X>
        static X f(X a, X const& b, long) { a |= b; return a; }
    };
    struct op_xor_assign
    {
        template <class T, class X>
        static X f(X a, X const& b, long) { a ^= b; return a; }
    };

    XV_SCALAR_RHS(op_add_rs, a + s)
    XV_SCALAR_LHS(op_add_ls, s + b)
    XV_SCALAR_RHS(op_sub_rs, a - s)
    XV_SCALAR_LHS(op_sub_ls, s - b)
    XV_SCALAR_RHS(op_mul_rs, a* s)
    XV_SCALAR_LHS(op_mul_ls, s* b)
    XV_SCALAR_RHS(op_div_rs, a / s)
    XV_SCALAR_LHS(op_div_ls, s / b)

    // ---- C08 ----
    XV_OP1(op_ceil, xs::ceil(a))
    XV_OP1(op_floor, xs::floor(a))
    XV_OP1(op_trunc, xs::trunc(a))
    XV_OP1(op_round, xs::round(a))
    XV_OP1(op_nearbyint, xs::nearbyint(a))
    XV_OP1(op_rint, xs::rint(a))
    XV_OP1(op_nearbyint_as_int, xs::nearbyint_as_int(a))
    XV_OP1(op_to_int, xs::to_int(a))

    template <class Op, class... T>
    void reg_to_int(const char* p, const char* n, types<T...>) { (reg<Op, T, B<xs::as_integer_t<T>>, B<T>>(p, n), ...); }

    void register_ops()
    {
        fp_types ft;
        reg_b<op_add>("C02", "add", ft);
        reg_b<op_add_fn>("C02", "add.fn", ft);
        reg_b<op_add_assign>("C02", "add.assign", ft);
        reg_b<op_sub>("C02", "sub", ft);
        reg_b<op_sub_fn>("C02", "sub.fn", ft);
        reg_b<op_mul>("C02", "mul", ft);
        reg_b<op_mul_fn>("C02", "mul.fn", ft);
        reg_b<op_div>("C02", "div", ft);
        reg_b<op_div_fn>("C02", "div.fn", ft);
        reg_b<op_div_assign>("C02", "div.assign", ft);
        reg_b<op_add_rs>("C02", "add.rs", ft);
        reg_b<op_add_ls>("C02", "add.ls", ft);
        reg_b<op_sub_rs>("C02", "sub.rs", ft);
        reg_b<op_sub_ls>("C02", "sub.ls", ft);
        reg_b<op_mul_rs>("C02", "mul.rs", ft);
        reg_b<op_mul_ls>("C02", "mul.ls", ft);
        reg_b<op_div_rs>("C02", "div.rs", ft);
        reg_b<op_div_ls>("C02", "div.ls", ft);
        reg_b<op_sub_assign>("C02", "sub.assign", ft);
        reg_b<op_mul_assign>("C02", "mul.assign", ft);
        reg_b<op_and_assign>("C02", "and.assign", ft);
        reg_b<op_or_assign>("C02", "or.assign", ft);
        reg_b<op_xor_assign>("C02", "xor.assign", ft);
        reg_u<op_sqrt>("C02", "sqrt", ft);
        reg_u<op_selfadd>("C02", "selfadd", ft);
        reg_u<op_selfsub>("C02", "selfsub", ft);
        reg_u<op_selfmul>("C02", "selfmul", ft);
        reg_u<op_selfmul_op>("C02", "selfmul.op", ft);
        reg_u<op_selfdiv>("C02", "selfdiv", ft);
        reg_u<op_selfand>("C02", "selfid.and", ft);
        reg_u<op_selfor>("C02", "selfid.or", ft);
        reg_u<op_selffma>("C02", "selffma", ft);
        reg_u<op_neg>("C02", "neg", ft);
        reg_u<op_neg_fn>("C02", "neg.fn", ft);
        reg_u<op_abs>("C02", "abs", ft);
        reg_u<op_fabs>("C02", "abs.fabs", ft);
        reg_b<op_copysign>("C02", "copysign", ft);
        reg_b<op_and>("C02", "and", ft);
        reg_b<op_or>("C02", "or", ft);
        reg_b<op_xor>("C02", "xor", ft);
        reg_u<op_not>("C02", "not", ft);
        reg_b<op_andnot>("C02", "andnot", ft);
        reg_t<op_fma>("C02", "fma", ft);
        reg_t<op_fms>("C02", "fms", ft);
        reg_t<op_fnma>("C02", "fnma", ft);
        reg_t<op_fnms>("C02", "fnms", ft);
        reg_b<op_min>("C02", "min", ft);
        reg_b<op_max>("C02", "max", ft);
        reg_pred<op_isnan>("C02", "isnan", ft);
        reg_pred<op_isinf>("C02", "isinf", ft);
        reg_pred<op_isfinite>("C02", "isfinite", ft);
        reg_pred<op_is_flint>("C02", "is_flint", ft);
        reg_pred<op_is_even>("C02", "is_even", ft);
        reg_pred<op_is_odd>("C02", "is_odd", ft);
        reg_u<op_sign>("C02", "sign", ft);
        reg_u<op_signnz>("C02", "signnz", ft);
        reg_u<op_bitofsign>("C02", "bitofsign", ft);
        reg_b<op_nextafter>("C02", "nextafter", ft);
        reg<op_ldexp, float, B<float>, B<float>, B<int32_t>>("C02", "ldexp");
        reg<op_ldexp, double, B<double>, B<double>, B<int64_t>>("C02", "ldexp");
        reg<op_frexp, float, std::pair<B<float>, B<int32_t>>, B<float>>("C02", "frexp");
        reg<op_frexp, double, std::pair<B<double>, B<int64_t>>, B<double>>("C02", "frexp");

        reg_u<op_ceil>("C08", "ceil", ft);
        reg_u<op_floor>("C08", "floor", ft);
        reg_u<op_trunc>("C08", "trunc", ft);
        reg_u<op_round>("C08", "round", ft);
        reg_u<op_nearbyint>("C08", "nearbyint", ft);
        reg_u<op_rint>("C08", "rint", ft);
        reg_to_int<op_nearbyint_as_int>("C08", "nearbyint_as_int", ft);
        reg_to_int<op_to_int>("C08", "to_int", ft);
    }
}
XV_MODULE("fp")
