// C04: loads and stores transfer exactly one register (lane i <-> element i, no other byte), at every
// pointer offset their contract allows, with the buffer placed against PROT_NONE guard pages (an over-read or
// over-write of a single byte faults) and across a page boundary; gather/scatter touch exactly the indexed
// elements; broadcast and the element-list constructor fill lanes in argument order.
// One executable per architecture (compiled with exactly that ISA's flags).
#include <xsimd/xsimd.hpp>

#include <sys/mman.h>
#include <unistd.h>

#include <complex>
#include <csetjmp>
#include <csignal>
#include <string>

#include "../engine/util.hpp"

namespace xv
{
    thread_local tick_state tk = { 0, ~0ul, {} };
}
using namespace xv;
namespace xs = xsimd;
using A = XV_ARCH;
template <class T>
using B = xs::batch<T, A>;
template <class T>
using BB = xs::batch_bool<T, A>;

static const size_t PAGE = 4096;
static unsigned char* g_arena; // [NONE][data][data][NONE]
static unsigned char* g_lo; // first data byte
static unsigned char* g_mid; // page boundary inside the data
static unsigned char* g_hi; // one past the last data byte
static sigjmp_buf g_env;
static volatile sig_atomic_t g_armed;
static void* volatile g_fault_addr;
static const char* volatile g_section = "start-up"; // which family of forms is running (for the report of an unguarded fault)
static const char* volatile g_type = "";
static void on_segv(int, siginfo_t* si, void*)
{
    if (g_armed)
    {
        g_fault_addr = si->si_addr;
        g_armed = 0;
        siglongjmp(g_env, 1);
    }
    // a fault outside an armed kernel call: some load/store used by the harness itself (to read a batch back or to
    // prepare an operand) touched the unmapped guard page. That is a kernel reaching outside its footprint as well.
    char b[300];
    long off = (long)((unsigned char*)si->si_addr - g_lo);
    int n = snprintf(b, sizeof b, "UNGUARDED-FAULT section=%s type=%s arch=" XV_ARCH_NAME " fault at data offset %ld (data area is [0, %ld))\n", g_section, g_type, off, (long)(g_hi - g_lo));
    if (n > 0)
        (void)!write(2, b, (size_t)n);
    _exit(99);
}

// an assertion of the library failing inside an armed kernel call (e.g. its alignment check on a pointer that the contract
// allows) is a violation of that call like a fault, not the end of the exploration
static char g_assert_msg[400];
extern "C" void __assert_fail(const char* expr, const char* file, unsigned line, const char* func)
{
    if (g_armed)
    {
        snprintf(g_assert_msg, sizeof g_assert_msg, "library assertion `%s' failed at %s:%u in %.120s", expr, file, line, func);
        g_fault_addr = nullptr;
        g_armed = 0;
        siglongjmp(g_env, 2);
    }
    char b[500];
    int n = snprintf(b, sizeof b, "UNGUARDED-FAULT section=%s type=%s arch=" XV_ARCH_NAME " assertion `%s' failed at %s:%u\n", g_section, g_type, expr, file, line);
    if (n > 0)
        (void)!write(2, b, (size_t)n);
    _exit(98);
}

struct Res
{
    uint64_t states = 0, transitions = 0, total = 0;
    std::vector<std::string> violations;
    std::map<std::string, uint64_t> by_key, per_op;
};
static Res R;
static void violation(const std::string& op, const std::string& type, const std::string& what_)
{
    std::string what = what_;
    if (g_assert_msg[0])
    {
        what = std::string(g_assert_msg) + " (reported by the harness as: " + what_ + ")";
        g_assert_msg[0] = 0;
    }
    ++R.total;
    uint64_t& n = R.by_key[op + "|" + type + "|" XV_ARCH_NAME "|"];
    if (++n <= 3 && R.violations.size() < 200)
    {
        J j;
        j.obj();
        j.k("property").str("C04");
        j.k("op").str(op);
        j.k("arch").str(XV_ARCH_NAME);
        j.k("type").str(type);
        j.k("note").str(what);
        j.k("finding").str("");
        j.k("in").arr().earr();
        j.eobj();
        R.violations.push_back(j.s);
    }
}

template <class T>
struct tn;
#define TN(T, N)                                  \
    template <>                                   \
    struct tn<T>                                  \
    {                                             \
        static const char* name() { return N; }   \
    };
TN(int8_t, "int8")
TN(uint8_t, "uint8")
TN(int16_t, "int16")
TN(uint16_t, "uint16")
TN(int32_t, "int32")
TN(uint32_t, "uint32")
TN(int64_t, "int64")
TN(uint64_t, "uint64")
TN(float, "float")
TN(double, "double")
TN(bool, "bool")
TN(std::complex<float>, "complex<float>")
TN(std::complex<double>, "complex<double>")

// pattern byte for position q of the arena (every byte of a register-sized window distinct)
static inline unsigned char pat(size_t q, unsigned salt) { return (unsigned char)((q * 7 + salt * 31 + 3) & 0xFF); }

// start addresses explored for a buffer of F bytes: against the leading guard page, across the page boundary,
// against the trailing guard page; `step` is 1 for unaligned accesses and the required alignment otherwise
static std::vector<unsigned char*> placements(size_t F, size_t step)
{
    std::vector<unsigned char*> v;
    auto add = [&](unsigned char* p)
    {
        if (p >= g_lo && p + F <= g_hi && ((uintptr_t)p % step) == 0)
            v.push_back(p);
    };
    for (size_t o = 0; o < 2 * 64 + step; ++o)
        add(g_lo + o); // starting exactly after the PROT_NONE page (o = 0) and every offset within two cache lines
    for (long o = -(long)F - 130; o <= 130; ++o)
        add(g_mid + o); // straddling the page boundary at every offset
    for (size_t o = 0; o < 2 * 64 + step; ++o)
        add(g_hi - F - o); // ending exactly at the PROT_NONE page (o = 0)
    std::sort(v.begin(), v.end());
    v.erase(std::unique(v.begin(), v.end()), v.end());
    return v;
}

static void fill_arena(unsigned salt)
{
    for (unsigned char* p = g_lo; p < g_hi; ++p)
        *p = pat((size_t)(p - g_lo), salt);
}

// ---- a load: `LoadF(ptr)` returns a register; `F` bytes starting at ptr are its footprint; expected lane bytes given by `Expect` ----
template <class T, class LoadF>
static void check_load(const char* op, size_t step, LoadF load)
{
    using Bt = B<T>;
    const size_t F = Bt::size * sizeof(T);
    uint64_t n = 0;
    for (unsigned salt = 0; salt < 2; ++salt)
    {
        fill_arena(salt);
        if (salt == 1 && std::is_floating_point<T>::value)
        {
            // signalling-NaN payloads everywhere (bit patterns must come back intact)
            for (unsigned char* p = g_lo; p + sizeof(T) <= g_hi; p += sizeof(T))
            {
                uint64_t bits = sizeof(T) == 4 ? (0x7F800000u | (uint32_t)(((p - g_lo) / sizeof(T)) % 0x3FFFFF + 1)) : (0x7FF0000000000000ull | (uint64_t)(((p - g_lo) / sizeof(T)) % 0xFFFFFFF + 1));
                memcpy(p, &bits, sizeof(T));
            }
        }
        for (unsigned char* p : placements(F, step))
        {
            ++n;
            unsigned char got[64 * 2];
            g_armed = 1;
        asm volatile("" ::: "memory"); // the kernel call below must not be moved out of the armed window
            if (sigsetjmp(g_env, 1))
            {
                char b[200];
                snprintf(b, sizeof b, "%s from data offset %ld (buffer of %zu bytes, %ld bytes before the trailing guard page): faulted at %ld, outside the buffer", op, (long)(p - g_lo), F, (long)(g_hi - p - (long)F), (long)((unsigned char*)g_fault_addr - p));
                violation(op, tn<T>::name(), b);
                continue;
            }
            Bt v = load((const T*)p);
            asm volatile("" ::: "memory");
        g_armed = 0;
            v.store_unaligned((T*)got);
            if (memcmp(got, p, F) != 0)
            {
                size_t bad = 0;
                while (bad < F && got[bad] == p[bad])
                    ++bad;
                char b[200];
                snprintf(b, sizeof b, "%s from data offset %ld: lane %zu (byte %zu) differs from memory element %zu", op, (long)(p - g_lo), bad / sizeof(T), bad, bad / sizeof(T));
                violation(op, tn<T>::name(), b);
            }
        }
    }
    R.states += n;
    R.transitions += n * Bt::size;
    R.per_op[std::string(op) + "<" + tn<T>::name() + ">"] += n;
}

// ---- a store of register `v` through `StoreF(ptr, v)`: exactly F bytes change, nothing else ----
template <class T, class StoreF>
static void check_store(const char* op, size_t step, StoreF store)
{
    using Bt = B<T>;
    const size_t F = Bt::size * sizeof(T);
    unsigned char src[64];
    for (size_t i = 0; i < F; ++i)
        src[i] = (unsigned char)(0xA0 + i * 5);
    if (std::is_floating_point<T>::value)
        for (size_t i = 0; i < Bt::size; ++i)
        {
            uint64_t bits = sizeof(T) == 4 ? (0x7F800000u | (uint32_t)(i + 1)) : (0x7FF0000000000000ull | (uint64_t)(i + 1));
            memcpy(src + i * sizeof(T), &bits, sizeof(T));
        }
    Bt v = Bt::load_unaligned((const T*)src);
    uint64_t n = 0;
    for (unsigned char* p : placements(F, step))
    {
        ++n;
        fill_arena(2);
        g_armed = 1;
        asm volatile("" ::: "memory"); // the kernel call below must not be moved out of the armed window
        if (sigsetjmp(g_env, 1))
        {
            char b[200];
            snprintf(b, sizeof b, "%s to data offset %ld (buffer of %zu bytes): faulted at %ld bytes from the buffer start, outside the buffer", op, (long)(p - g_lo), F, (long)((unsigned char*)g_fault_addr - p));
            violation(op, tn<T>::name(), b);
            continue;
        }
        store((T*)p, v);
        asm volatile("" ::: "memory");
        g_armed = 0;
        if (memcmp(p, src, F) != 0)
        {
            char b[200];
            snprintf(b, sizeof b, "%s to data offset %ld: stored bytes differ from the lanes", op, (long)(p - g_lo));
            violation(op, tn<T>::name(), b);
        }
        // every byte outside [p, p+F) within 160 bytes on both sides keeps its pattern
        unsigned char* a = p - 160 < g_lo ? g_lo : p - 160;
        unsigned char* z = p + F + 160 > g_hi ? g_hi : p + F + 160;
        for (unsigned char* q = a; q < z; ++q)
        {
            if (q >= p && q < p + F)
                continue;
            if (*q != pat((size_t)(q - g_lo), 2))
            {
                char b[200];
                snprintf(b, sizeof b, "%s to data offset %ld: byte at %ld relative to the buffer (outside its %zu bytes) was modified", op, (long)(p - g_lo), (long)(q - p), F);
                violation(op, tn<T>::name(), b);
                break;
            }
        }
    }
    R.states += n;
    R.transitions += n * (F + 320);
    R.per_op[std::string(op) + "<" + tn<T>::name() + ">"] += n;
}

template <class T>
static void run_plain()
{
    g_section = "plain load/store forms";
    const size_t al = A::alignment();
    check_load<T>("load_unaligned", 1, [](const T* p)
                  { return B<T>::load_unaligned(p); });
    check_load<T>("load_aligned", al, [](const T* p)
                  { return B<T>::load_aligned(p); });
    check_load<T>("load(unaligned_mode)", 1, [](const T* p)
                  { return B<T>::load(p, xs::unaligned_mode()); });
    check_load<T>("load(aligned_mode)", al, [](const T* p)
                  { return B<T>::load(p, xs::aligned_mode()); });
    check_load<T>("xsimd::load_unaligned", 1, [](const T* p)
                  { return xs::load_unaligned<A>(p); });
    check_load<T>("xsimd::load_aligned", al, [](const T* p)
                  { return xs::load_aligned<A>(p); });
    check_load<T>("xsimd::load_as<T>(unaligned)", 1, [](const T* p)
                  { return xs::load_as<T, A>(p, xs::unaligned_mode()); });
    check_store<T>("store_unaligned", 1, [](T* p, B<T> const& v)
                   { v.store_unaligned(p); });
    check_store<T>("store_aligned", al, [](T* p, B<T> const& v)
                   { v.store_aligned(p); });
    check_store<T>("store(unaligned_mode)", 1, [](T* p, B<T> const& v)
                   { v.store(p, xs::unaligned_mode()); });
    check_store<T>("store(aligned_mode)", al, [](T* p, B<T> const& v)
                   { v.store(p, xs::aligned_mode()); });
    check_store<T>("xsimd::store_unaligned", 1, [](T* p, B<T> const& v)
                   { xs::store_unaligned(p, v); });
    check_store<T>("xsimd::store_aligned", al, [](T* p, B<T> const& v)
                   { xs::store_aligned(p, v); });
    check_store<T>("xsimd::store_as<T>(unaligned)", 1, [](T* p, B<T> const& v)
                   { xs::store_as(p, v, xs::unaligned_mode()); });
}

// ---- converting load / store: footprint To::size * sizeof(From) bytes ----
// FORM 0: xsimd::load_as / store_as (unaligned_mode), 1: the same with aligned_mode (pointers aligned on A::alignment()),
// 2: the members batch<To>::load_unaligned(From const*) / store_unaligned(From*), 3: load_aligned / store_aligned
template <class From, class To, int FORM>
static void run_convert_form()
{
    static const char* const LNAME[] = { "load_as", "load_as(aligned_mode)", "batch::load_unaligned(U const*)", "batch::load_aligned(U const*)" };
    static const char* const SNAME[] = { "store_as", "store_as(aligned_mode)", "batch::store_unaligned(U*)", "batch::store_aligned(U*)" };
    const char* lname = LNAME[FORM];
    const char* sname = SNAME[FORM];
    using Bt = B<To>;
    const size_t F = Bt::size * sizeof(From);
    const std::string nm = std::string(tn<From>::name()) + "->" + tn<To>::name();
    uint64_t n = 0;
    // memory holds small values representable in both types
    for (unsigned char* p : placements(F, (FORM & 1) ? A::alignment() : 1))
    {
        ++n;
        fill_arena(3);
        From vals[64];
        for (size_t i = 0; i < Bt::size; ++i)
            vals[i] = (From)((i * 3 + 1) % 100);
        memcpy(p, vals, F);
        g_armed = 1;
        asm volatile("" ::: "memory"); // the kernel call below must not be moved out of the armed window
        if (sigsetjmp(g_env, 1))
        {
            char b[200];
            snprintf(b, sizeof b, "%s %s at data offset %ld: faulted %ld bytes from the buffer start (footprint %zu bytes)", lname, nm.c_str(), (long)(p - g_lo), (long)((unsigned char*)g_fault_addr - p), F);
            violation(lname, nm, b);
            continue;
        }
        Bt v;
        if constexpr (FORM == 0)
            v = xs::load_as<To, A>((const From*)p, xs::unaligned_mode());
        else if constexpr (FORM == 1)
            v = xs::load_as<To, A>((const From*)p, xs::aligned_mode());
        else if constexpr (FORM == 2)
            v = Bt::load_unaligned((const From*)p);
        else
            v = Bt::load_aligned((const From*)p);
        asm volatile("" ::: "memory");
        g_armed = 0;
        To got[64];
        v.store_unaligned(got);
        for (size_t i = 0; i < Bt::size; ++i)
            if (got[i] != (To)vals[i])
            {
                violation(lname, nm, "lane " + std::to_string(i) + " does not hold memory element " + std::to_string(i) + " (data offset " + std::to_string(p - g_lo) + ")");
                break;
            }
        // store: batch<To> stored as From elements: exactly F bytes
        fill_arena(4);
        g_armed = 1;
        asm volatile("" ::: "memory"); // the kernel call below must not be moved out of the armed window
        if (sigsetjmp(g_env, 1))
        {
            char b[200];
            snprintf(b, sizeof b, "%s %s at data offset %ld: faulted %ld bytes from the buffer start (footprint %zu bytes)", sname, nm.c_str(), (long)(p - g_lo), (long)((unsigned char*)g_fault_addr - p), F);
            violation(sname, nm, b);
            continue;
        }
        if constexpr (FORM == 0)
            xs::store_as((From*)p, v, xs::unaligned_mode());
        else if constexpr (FORM == 1)
            xs::store_as((From*)p, v, xs::aligned_mode());
        else if constexpr (FORM == 2)
            v.store_unaligned((From*)p);
        else
            v.store_aligned((From*)p);
        asm volatile("" ::: "memory");
        g_armed = 0;
        From back[64];
        memcpy(back, p, F);
        for (size_t i = 0; i < Bt::size; ++i)
            if (back[i] != vals[i])
            {
                violation(sname, nm, "memory element " + std::to_string(i) + " does not hold lane " + std::to_string(i));
                break;
            }
        unsigned char* a = p - 160 < g_lo ? g_lo : p - 160;
        unsigned char* z = p + F + 160 > g_hi ? g_hi : p + F + 160;
        for (unsigned char* q = a; q < z; ++q)
            if ((q < p || q >= p + F) && *q != pat((size_t)(q - g_lo), 4))
            {
                violation(sname, nm, "a byte " + std::to_string(q - p) + " relative to the buffer (outside its " + std::to_string(F) + " bytes) was modified");
                break;
            }
    }
    R.states += 2 * n;
    R.transitions += 2 * n * Bt::size;
    R.per_op[std::string(lname) + "/" + sname + "<" + nm + ">"] += 2 * n;
}
template <class From, class To>
static void run_convert()
{
    g_section = "converting load_as/store_as";
    static const std::string cvname = std::string(tn<From>::name()) + "->" + tn<To>::name();
    g_type = cvname.c_str();
    run_convert_form<From, To, 0>();
    run_convert_form<From, To, 1>();
    run_convert_form<From, To, 2>();
    run_convert_form<From, To, 3>();
}
template <class From, class... To>
static void run_convert_from() { (run_convert<From, To>(), ...); }

// ---- Boolean batches through bool arrays ----
template <class T>
static void run_bool()
{
    g_section = "batch_bool load/store";
    using M = BB<T>;
    const size_t F = M::size * sizeof(bool);
    uint64_t n = 0;
    for (unsigned char* p : placements(F, 1))
    {
        for (unsigned pass = 0; pass < 2; ++pass)
        {
            ++n;
            fill_arena(5);
            bool want[64];
            for (size_t i = 0; i < M::size; ++i)
            {
                want[i] = ((i * 5 + pass * 3 + (size_t)(p - g_lo)) % 3) != 0;
                p[i] = want[i] ? 1 : 0;
            }
            g_armed = 1;
        asm volatile("" ::: "memory"); // the kernel call below must not be moved out of the armed window
            if (sigsetjmp(g_env, 1))
            {
                violation("batch_bool::load/store", tn<T>::name(), "faulted " + std::to_string((unsigned char*)g_fault_addr - p) + " bytes from the start of a buffer of " + std::to_string(F) + " bytes at data offset " + std::to_string(p - g_lo));
                continue;
            }
            M m = M::load_unaligned((const bool*)p);
            bool got[64];
            m.store_unaligned(got);
            fill_arena(6);
            m.store_unaligned((bool*)p);
            asm volatile("" ::: "memory");
        g_armed = 0;
            for (size_t i = 0; i < M::size; ++i)
                if (got[i] != want[i] || p[i] != (want[i] ? 1 : 0))
                {
                    violation("batch_bool::load/store", tn<T>::name(), "lane " + std::to_string(i) + " does not round-trip through the bool array");
                    break;
                }
            unsigned char* a = p - 160 < g_lo ? g_lo : p - 160;
            unsigned char* z = p + F + 160 > g_hi ? g_hi : p + F + 160;
            for (unsigned char* q = a; q < z; ++q)
                if ((q < p || q >= p + F) && *q != pat((size_t)(q - g_lo), 6))
                {
                    violation("batch_bool::store", tn<T>::name(), "a byte " + std::to_string(q - p) + " relative to the buffer (outside its " + std::to_string(F) + " bytes) was modified");
                    break;
                }
        }
    }
    R.states += n;
    R.transitions += n * M::size;
    R.per_op[std::string("batch_bool::load/store<") + tn<T>::name() + ">"] += n;
}

// ---- complex batches: interleaved (re, im) elements ----
// FORM 0: the members load_aligned/load_unaligned(C const*) and store_aligned/store_unaligned(C*); 1: xsimd::load_as<C> /
// xsimd::store_as with a mode tag; 2: the members load(p, mode) / store(p, mode)
template <class T, int FORM = 0>
static void run_complex()
{
    g_section = "complex load/store";
    using C = std::complex<T>;
    using Bc = xs::batch<C, A>;
    const size_t F = Bc::size * sizeof(C);
    const size_t al = A::alignment();
    uint64_t n = 0;
    for (int aligned = 0; aligned < 2; ++aligned)
        for (unsigned char* p : placements(F, aligned ? al : 1))
        {
            ++n;
            fill_arena(7);
            T want[128];
            memcpy(want, p, F);
            // make every component an ordinary number with a distinct value
            for (size_t i = 0; i < 2 * Bc::size; ++i)
                want[i] = (T)(i + 1) * (T)0.5;
            memcpy(p, want, F);
            g_armed = 1;
        asm volatile("" ::: "memory"); // the kernel call below must not be moved out of the armed window
            if (sigsetjmp(g_env, 1))
            {
                violation("complex load/store", tn<C>::name(), "faulted " + std::to_string((unsigned char*)g_fault_addr - p) + " bytes from the start of a buffer of " + std::to_string(F) + " bytes at data offset " + std::to_string(p - g_lo));
                continue;
            }
            Bc v;
            if constexpr (FORM == 0)
                v = aligned ? Bc::load_aligned((const C*)p) : Bc::load_unaligned((const C*)p);
            else if constexpr (FORM == 1)
                v = aligned ? xs::load_as<C, A>((const C*)p, xs::aligned_mode()) : xs::load_as<C, A>((const C*)p, xs::unaligned_mode());
            else
                v = aligned ? Bc::load((const C*)p, xs::aligned_mode()) : Bc::load((const C*)p, xs::unaligned_mode());
            T re[64], im[64];
            v.real().store_unaligned(re);
            v.imag().store_unaligned(im);
            fill_arena(8);
            if constexpr (FORM == 0)
            {
                if (aligned)
                    v.store_aligned((C*)p);
                else
                    v.store_unaligned((C*)p);
            }
            else if constexpr (FORM == 1)
            {
                if (aligned)
                    xs::store_as((C*)p, v, xs::aligned_mode());
                else
                    xs::store_as((C*)p, v, xs::unaligned_mode());
            }
            else
            {
                if (aligned)
                    v.store((C*)p, xs::aligned_mode());
                else
                    v.store((C*)p, xs::unaligned_mode());
            }
            asm volatile("" ::: "memory");
        g_armed = 0;
            for (size_t i = 0; i < Bc::size; ++i)
                if (re[i] != want[2 * i] || im[i] != want[2 * i + 1])
                {
                    violation("complex load", tn<C>::name(), "lane " + std::to_string(i) + " of real()/imag() does not hold memory element " + std::to_string(i));
                    break;
                }
            if (memcmp(p, want, F) != 0)
                violation("complex store", tn<C>::name(), "stored interleaved elements differ from the lanes");
            unsigned char* a = p - 160 < g_lo ? g_lo : p - 160;
            unsigned char* z = p + F + 160 > g_hi ? g_hi : p + F + 160;
            for (unsigned char* q = a; q < z; ++q)
                if ((q < p || q >= p + F) && *q != pat((size_t)(q - g_lo), 8))
                {
                    violation("complex store", tn<C>::name(), "a byte " + std::to_string(q - p) + " relative to the buffer (outside its " + std::to_string(F) + " bytes) was modified");
                    break;
                }
        }
    R.states += n;
    R.transitions += n * 2 * Bc::size;
    R.per_op[std::string("complex load/store<") + tn<C>::name() + ">" + (FORM == 1 ? " load_as/store_as" : FORM == 2 ? " load/store(mode)" : "")] += n;
}

// the split form: real parts and imaginary parts in two separate arrays (load_*(re, im) / store_*(re, im)); each array in
// turn sits in the guarded arena while the other one is an ordinary local buffer
template <class T>
static void run_complex_split()
{
    g_section = "complex split load/store";
    using C = std::complex<T>;
    using Bc = xs::batch<C, A>;
    const size_t F = Bc::size * sizeof(T);
    const size_t al = A::alignment();
    uint64_t n = 0;
    for (int which = 0; which < 2; ++which) // 0: the real array is in the arena, 1: the imaginary array
        for (int aligned = 0; aligned < 2; ++aligned)
            for (unsigned char* p : placements(F, aligned ? al : 1))
            {
                ++n;
                fill_arena(9);
                alignas(64) T other[64];
                T want_in[64], want_other[64];
                for (size_t i = 0; i < Bc::size; ++i)
                {
                    want_in[i] = (T)(i + 1) * (T)0.5;
                    want_other[i] = (T)(i + 1) * (T)-0.25 - (T)100;
                    other[i] = want_other[i];
                }
                memcpy(p, want_in, F);
                g_armed = 1;
                asm volatile("" ::: "memory");
                if (sigsetjmp(g_env, 1))
                {
                    violation("complex split load/store", tn<C>::name(), "faulted " + std::to_string((unsigned char*)g_fault_addr - p) + " bytes from the start of an array of " + std::to_string(F) + " bytes");
                    continue;
                }
                const T* rp = which == 0 ? (const T*)p : other;
                const T* ip = which == 0 ? other : (const T*)p;
                Bc v = aligned ? Bc::load_aligned(rp, ip) : Bc::load_unaligned(rp, ip);
                T re[64], im[64];
                v.real().store_unaligned(re);
                v.imag().store_unaligned(im);
                fill_arena(10);
                for (size_t i = 0; i < Bc::size; ++i)
                    other[i] = (T)7777;
                if (aligned)
                    v.store_aligned((T*)rp, (T*)ip);
                else
                    v.store_unaligned((T*)rp, (T*)ip);
                asm volatile("" ::: "memory");
                g_armed = 0;
                const T* wre = which == 0 ? want_in : want_other;
                const T* wim = which == 0 ? want_other : want_in;
                for (size_t i = 0; i < Bc::size; ++i)
                    if (re[i] != wre[i] || im[i] != wim[i])
                    {
                        violation("complex split load", tn<C>::name(), "lane " + std::to_string(i) + " of real()/imag() does not hold element " + std::to_string(i) + " of the real / imaginary array");
                        break;
                    }
                if (memcmp(p, want_in, F) != 0 || memcmp(other, want_other, F) != 0)
                    violation("complex split store", tn<C>::name(), "stored real / imaginary arrays differ from the lanes");
                unsigned char* a = p - 160 < g_lo ? g_lo : p - 160;
                unsigned char* z = p + F + 160 > g_hi ? g_hi : p + F + 160;
                for (unsigned char* q = a; q < z; ++q)
                    if ((q < p || q >= p + F) && *q != pat((size_t)(q - g_lo), 10))
                    {
                        violation("complex split store", tn<C>::name(), "a byte " + std::to_string(q - p) + " relative to the array (outside its " + std::to_string(F) + " bytes) was modified");
                        break;
                    }
            }
    R.states += n;
    R.transitions += n * 2 * Bc::size;
    R.per_op[std::string("complex split load/store<") + tn<C>::name() + ">"] += n;
}

// mixed precision: load_as<complex<To>>(complex<From> const*) reads To-batch-size elements of complex<From>, store_as the inverse
template <class From, class To>
static void run_complex_mixed()
{
    g_section = "complex converting load/store";
    using CF = std::complex<From>;
    using CT = std::complex<To>;
    using Bc = xs::batch<CT, A>;
    const size_t F = Bc::size * sizeof(CF);
    const size_t al = A::alignment();
    uint64_t n = 0;
    for (int aligned = 0; aligned < 2; ++aligned)
        for (unsigned char* p : placements(F, aligned ? al : 1))
        {
            ++n;
            fill_arena(11);
            From want[128];
            for (size_t i = 0; i < 2 * Bc::size; ++i)
                want[i] = (From)(i + 1) * (From)0.5;
            memcpy(p, want, F);
            g_armed = 1;
            asm volatile("" ::: "memory");
            if (sigsetjmp(g_env, 1))
            {
                violation("complex converting load/store", tn<CT>::name(), "faulted " + std::to_string((unsigned char*)g_fault_addr - p) + " bytes from the start of a buffer of " + std::to_string(F) + " bytes");
                continue;
            }
            Bc v = aligned ? xs::load_as<CT, A>((const CF*)p, xs::aligned_mode()) : xs::load_as<CT, A>((const CF*)p, xs::unaligned_mode());
            To re[64], im[64];
            v.real().store_unaligned(re);
            v.imag().store_unaligned(im);
            fill_arena(12);
            if (aligned)
                xs::store_as((CF*)p, v, xs::aligned_mode());
            else
                xs::store_as((CF*)p, v, xs::unaligned_mode());
            asm volatile("" ::: "memory");
            g_armed = 0;
            for (size_t i = 0; i < Bc::size; ++i)
                if (re[i] != (To)want[2 * i] || im[i] != (To)want[2 * i + 1])
                {
                    violation("complex converting load", tn<CT>::name(), "lane " + std::to_string(i) + " of real()/imag() does not hold the converted memory element " + std::to_string(i));
                    break;
                }
            if (memcmp(p, want, F) != 0)
                violation("complex converting store", tn<CT>::name(), "stored interleaved elements differ from the converted lanes");
            unsigned char* a = p - 160 < g_lo ? g_lo : p - 160;
            unsigned char* z = p + F + 160 > g_hi ? g_hi : p + F + 160;
            for (unsigned char* q = a; q < z; ++q)
                if ((q < p || q >= p + F) && *q != pat((size_t)(q - g_lo), 12))
                {
                    violation("complex converting store", tn<CT>::name(), "a byte " + std::to_string(q - p) + " relative to the buffer (outside its " + std::to_string(F) + " bytes) was modified");
                    break;
                }
        }
    R.states += n;
    R.transitions += n * 2 * Bc::size;
    R.per_op[std::string("complex converting load/store<") + tn<CT>::name() + ">"] += n;
}

// ---- gather / scatter ----
template <class T>
static std::vector<std::vector<int>> index_vectors(size_t n, size_t tab)
{
    std::vector<std::vector<int>> V;
    if (n <= 4)
    {
        size_t tot = 1;
        for (size_t i = 0; i < n; ++i)
            tot *= tab;
        for (size_t c = 0; c < tot; ++c)
        {
            std::vector<int> v(n);
            size_t x = c;
            for (size_t i = 0; i < n; ++i)
            {
                v[i] = (int)(x % tab);
                x /= tab;
            }
            V.push_back(v);
        }
        return V;
    }
    std::vector<int> id(n);
    for (size_t i = 0; i < n; ++i)
        id[i] = (int)i;
    V.push_back(id);
    {
        std::vector<int> r(n);
        for (size_t i = 0; i < n; ++i)
            r[i] = (int)(tab - 1 - i);
        V.push_back(r);
    }
    for (size_t j = 0; j < tab; ++j)
        V.push_back(std::vector<int>(n, (int)j));
    for (size_t s = 2; s * (n - 1) < tab; ++s)
    {
        std::vector<int> v(n);
        for (size_t i = 0; i < n; ++i)
            v[i] = (int)(i * s);
        V.push_back(v);
    }
    for (size_t i = 0; i < n; ++i)
        for (size_t j = 0; j < tab; ++j)
        {
            std::vector<int> v = id;
            v[i] = (int)j;
            V.push_back(v);
        }
    return V;
}

template <class T>
static void run_gather_scatter()
{
    g_section = "gather/scatter";
    using I = xs::as_integer_t<T>;
    using U = xs::as_unsigned_integer_t<T>;
    const size_t n = B<T>::size, tab = 2 * n;
    const size_t F = tab * sizeof(T);
    uint64_t cnt = 0;
    auto V = index_vectors<T>(n, tab);
    // the table sits against the trailing guard page, against the leading one, and across the page boundary
    unsigned char* bases[3] = { g_hi - F, g_lo, g_mid - F / 2 };
    for (unsigned char* base : bases)
    {
        T* table = (T*)base;
        for (auto& iv : V)
        {
            ++cnt;
            fill_arena(9);
            T tv[256];
            memcpy(tv, base, F);
            I idx[64];
            for (size_t i = 0; i < n; ++i)
                idx[i] = (I)iv[i];
            xs::batch<I, A> bi = xs::batch<I, A>::load_unaligned(idx);
            g_armed = 1;
        asm volatile("" ::: "memory"); // the kernel call below must not be moved out of the armed window
            if (sigsetjmp(g_env, 1))
            {
                violation("gather/scatter", tn<T>::name(), "faulted at byte " + std::to_string((unsigned char*)g_fault_addr - base) + " relative to a table of " + std::to_string(F) + " bytes");
                continue;
            }
            B<T> g = B<T>::gather(table, bi);
            asm volatile("" ::: "memory");
        g_armed = 0;
            T got[64];
            g.store_unaligned(got);
            for (size_t i = 0; i < n; ++i)
                if (memcmp(&got[i], &tv[iv[i]], sizeof(T)) != 0)
                {
                    violation("gather", tn<T>::name(), "lane " + std::to_string(i) + " does not hold table element " + std::to_string(iv[i]));
                    break;
                }
            // scatter distinct lane values; with duplicate indices the final value must be one of the colliding lanes
            T lanes[64];
            for (size_t i = 0; i < n; ++i)
            {
                U bits = (U)(0x40 + i);
                memcpy(&lanes[i], &bits, sizeof(T));
            }
            B<T> sv = B<T>::load_unaligned(lanes);
            g_armed = 1;
        asm volatile("" ::: "memory"); // the kernel call below must not be moved out of the armed window
            if (sigsetjmp(g_env, 1))
            {
                violation("scatter", tn<T>::name(), "faulted at byte " + std::to_string((unsigned char*)g_fault_addr - base) + " relative to a table of " + std::to_string(F) + " bytes");
                continue;
            }
            sv.scatter(table, bi);
            asm volatile("" ::: "memory");
        g_armed = 0;
            for (size_t e = 0; e < tab; ++e)
            {
                bool indexed = false, match = false;
                for (size_t i = 0; i < n; ++i)
                    if ((size_t)iv[i] == e)
                    {
                        indexed = true;
                        if (memcmp(&table[e], &lanes[i], sizeof(T)) == 0)
                            match = true;
                    }
                if (indexed ? !match : memcmp(&table[e], &tv[e], sizeof(T)) != 0)
                {
                    violation("scatter", tn<T>::name(), indexed ? "indexed table element " + std::to_string(e) + " does not hold the value of a lane that targets it" : "table element " + std::to_string(e) + " was modified although no lane indexes it");
                    break;
                }
            }
            // bytes around the table untouched
            unsigned char* a = base - 160 < g_lo ? g_lo : base - 160;
            unsigned char* z = base + F + 160 > g_hi ? g_hi : base + F + 160;
            for (unsigned char* q = a; q < z; ++q)
                if ((q < base || q >= base + F) && *q != pat((size_t)(q - g_lo), 9))
                {
                    violation("scatter", tn<T>::name(), "a byte outside the table was modified");
                    break;
                }
        }
    }
    R.states += cnt;
    R.transitions += cnt * (n + tab);
    R.per_op[std::string("gather/scatter<") + tn<T>::name() + ">"] += cnt;
}

// ---- gather / scatter with UNSIGNED indices whose top bit is set (8- and 16-bit lanes: the table can be that large) ----
template <class T>
static void run_gather_scatter_unsigned()
{
    if constexpr (sizeof(T) <= 2)
    {
        g_section = "gather/scatter with unsigned indices";
        using U = xs::as_unsigned_integer_t<T>;
        const size_t n = B<T>::size, tab = (size_t)1 << (8 * sizeof(T)); // every index value addresses the table
        const size_t F = tab * sizeof(T);
        const size_t pages = (F + PAGE - 1) / PAGE;
        // own arena: [NONE][table pages][NONE], the table against either guard
        unsigned char* ar = (unsigned char*)mmap(nullptr, (pages + 2) * PAGE, PROT_NONE, MAP_PRIVATE | MAP_ANONYMOUS, -1, 0);
        if (ar == MAP_FAILED || mprotect(ar + PAGE, pages * PAGE, PROT_READ | PROT_WRITE))
        {
            perror("mmap");
            _exit(98);
        }
        unsigned char* lo = ar + PAGE;
        unsigned char* hi = lo + pages * PAGE;
        std::vector<std::vector<size_t>> V;
        const size_t half = tab / 2, top = tab - 1;
        for (size_t start : { (size_t)0, half - n / 2, half, top - (n - 1), half + 3 })
        {
            std::vector<size_t> v(n);
            for (size_t i = 0; i < n; ++i)
                v[i] = (start + i) % tab;
            V.push_back(v);
        }
        {
            std::vector<size_t> v(n), w(n), x(n);
            for (size_t i = 0; i < n; ++i)
            {
                v[i] = top - i * (tab / n / 2); // descending from the last element
                w[i] = (i % 2) ? top - i : i; // alternating low / high
                x[i] = top;
            }
            V.push_back(v);
            V.push_back(w);
            V.push_back(x);
        }
        uint64_t cnt = 0;
        std::vector<T> tv(tab);
        for (unsigned char* base : { hi - F, lo })
        {
            T* table = (T*)base;
            for (auto& iv : V)
            {
                ++cnt;
                for (size_t e = 0; e < pages * PAGE; ++e)
                    lo[e] = pat(e, 11);
                memcpy(tv.data(), base, F);
                U idx[64];
                for (size_t i = 0; i < n; ++i)
                    idx[i] = (U)iv[i];
                xs::batch<U, A> bi = xs::batch<U, A>::load_unaligned(idx);
                g_armed = 1;
                asm volatile("" ::: "memory");
                if (sigsetjmp(g_env, 1))
                {
                    violation("gather (unsigned index)", tn<T>::name(), "faulted at byte " + std::to_string((long)((unsigned char*)g_fault_addr - base)) + " relative to a table of " + std::to_string(F) + " bytes");
                    continue;
                }
                B<T> g = B<T>::gather(table, bi);
                asm volatile("" ::: "memory");
                g_armed = 0;
                T got[64];
                g.store_unaligned(got);
                for (size_t i = 0; i < n; ++i)
                    if (memcmp(&got[i], &tv[iv[i]], sizeof(T)) != 0)
                    {
                        violation("gather (unsigned index)", tn<T>::name(), "lane " + std::to_string(i) + " does not hold table element " + std::to_string(iv[i]));
                        break;
                    }
                T lanes[64];
                for (size_t i = 0; i < n; ++i)
                {
                    U bits = (U)(0x40 + i);
                    memcpy(&lanes[i], &bits, sizeof(T));
                }
                B<T> sv = B<T>::load_unaligned(lanes);
                g_armed = 1;
                asm volatile("" ::: "memory");
                if (sigsetjmp(g_env, 1))
                {
                    violation("scatter (unsigned index)", tn<T>::name(), "faulted at byte " + std::to_string((long)((unsigned char*)g_fault_addr - base)) + " relative to a table of " + std::to_string(F) + " bytes");
                    continue;
                }
                sv.scatter(table, bi);
                asm volatile("" ::: "memory");
                g_armed = 0;
                std::vector<char> indexed(tab, 0), match(tab, 0);
                for (size_t i = 0; i < n; ++i)
                {
                    indexed[iv[i]] = 1;
                    if (memcmp(&table[iv[i]], &lanes[i], sizeof(T)) == 0)
                        match[iv[i]] = 1;
                }
                for (size_t e = 0; e < tab; ++e)
                    if (indexed[e] ? !match[e] : memcmp(&table[e], &tv[e], sizeof(T)) != 0)
                    {
                        violation("scatter (unsigned index)", tn<T>::name(), indexed[e] ? "indexed table element " + std::to_string(e) + " does not hold the value of a lane that targets it" : "table element " + std::to_string(e) + " was modified although no lane indexes it");
                        break;
                    }
                for (unsigned char* q = lo; q < hi; ++q)
                    if ((q < base || q >= base + F) && *q != pat((size_t)(q - lo), 11))
                    {
                        violation("scatter (unsigned index)", tn<T>::name(), "a byte outside the table was modified");
                        break;
                    }
            }
        }
        munmap(ar, (pages + 2) * PAGE);
        R.states += cnt;
        R.transitions += cnt * 2 * n;
        R.per_op[std::string("gather/scatter(unsigned index)<") + tn<T>::name() + ">"] += cnt;
    }
}

// ---- gather / scatter through a pointer into the MIDDLE of the table (negative and positive signed indices), for every
// element type U of the table: batch<T>::gather(U const*, index) converts every indexed element to T, scatter(U*, index)
// converts every lane to U. Values are small integers (exactly representable in every type), all distinct. ----
template <class T, class U>
static void run_gather_scatter_mid()
{
    g_section = "gather/scatter (signed indices around a mid-table pointer, converting)";
    using I = xs::as_integer_t<T>;
    const long n = (long)B<T>::size;
    const long half = n < 60 ? n + 2 : 62; // int8 indices: [-62, 62)
    const long tab = 2 * half;
    const size_t F = (size_t)tab * sizeof(U);
    uint64_t cnt = 0;
    std::vector<std::vector<long>> V;
    {
        std::vector<long> v((size_t)n);
        for (long i = 0; i < n; ++i)
            v[(size_t)i] = i - n / 2; // a window across zero
        V.push_back(v);
        for (long i = 0; i < n; ++i)
            v[(size_t)i] = -1 - (i % half); // all negative
        V.push_back(v);
        for (long i = 0; i < n; ++i)
            v[(size_t)i] = (i % 2) ? -half + (i % half) : half - 1 - (i % half); // alternating ends
        V.push_back(v);
        for (long j = -half; j < half; ++j)
            V.push_back(std::vector<long>((size_t)n, j)); // every index value in every lane
        for (long i = 0; i < n; ++i) // one lane deviates to each end
            for (long j : { -half, -1L, 0L, half - 1 })
            {
                std::vector<long> w((size_t)n);
                for (long k = 0; k < n; ++k)
                    w[(size_t)k] = (k % half);
                w[(size_t)i] = j;
                V.push_back(w);
            }
    }
    unsigned char* bases[3] = { g_hi - F, g_lo, g_mid - F / 2 };
    for (unsigned char* base : bases)
    {
        U* table = (U*)base;
        U* mid = table + half;
        for (auto& iv : V)
        {
            ++cnt;
            fill_arena(11);
            U tv[128];
            for (long e = 0; e < tab; ++e)
                tv[e] = table[e] = (U)(e + 1); // 1..124: exact in every element type
            I idx[64];
            for (long i = 0; i < n; ++i)
                idx[i] = (I)iv[(size_t)i];
            xs::batch<I, A> bi = xs::batch<I, A>::load_unaligned(idx);
            g_armed = 1;
            asm volatile("" ::: "memory");
            if (sigsetjmp(g_env, 1))
            {
                violation("gather (mid-table, converting)", std::string(tn<T>::name()) + "<-" + tn<U>::name(), "faulted at byte " + std::to_string((long)((unsigned char*)g_fault_addr - base)) + " relative to a table of " + std::to_string(F) + " bytes");
                continue;
            }
            B<T> g = B<T>::gather((U const*)mid, bi);
            asm volatile("" ::: "memory");
            g_armed = 0;
            T got[64];
            g.store_unaligned(got);
            for (long i = 0; i < n; ++i)
                if (got[i] != (T)tv[half + iv[(size_t)i]])
                {
                    violation("gather (mid-table, converting)", std::string(tn<T>::name()) + "<-" + tn<U>::name(), "lane " + std::to_string(i) + " does not hold the table element at signed index " + std::to_string(iv[(size_t)i]));
                    break;
                }
            T lanes[64];
            for (long i = 0; i < n; ++i)
                lanes[i] = (T)(0x40 + i % 60);
            B<T> sv = B<T>::load_unaligned(lanes);
            g_armed = 1;
            asm volatile("" ::: "memory");
            if (sigsetjmp(g_env, 1))
            {
                violation("scatter (mid-table, converting)", std::string(tn<T>::name()) + "->" + tn<U>::name(), "faulted at byte " + std::to_string((long)((unsigned char*)g_fault_addr - base)) + " relative to a table of " + std::to_string(F) + " bytes");
                continue;
            }
            sv.scatter(mid, bi);
            asm volatile("" ::: "memory");
            g_armed = 0;
            for (long e = 0; e < tab; ++e)
            {
                bool indexed = false, match = false;
                for (long i = 0; i < n; ++i)
                    if (half + iv[(size_t)i] == e)
                    {
                        indexed = true;
                        if (table[e] == (U)lanes[i])
                            match = true;
                    }
                if (indexed ? !match : memcmp(&table[e], &tv[e], sizeof(U)) != 0)
                {
                    violation("scatter (mid-table, converting)", std::string(tn<T>::name()) + "->" + tn<U>::name(), indexed ? "table element at signed index " + std::to_string(e - half) + " does not hold the converted value of a lane that targets it" : "table element at signed index " + std::to_string(e - half) + " was modified although no lane indexes it");
                    break;
                }
            }
            unsigned char* a = base - 160 < g_lo ? g_lo : base - 160;
            unsigned char* z = base + F + 160 > g_hi ? g_hi : base + F + 160;
            for (unsigned char* q = a; q < z; ++q)
                if ((q < base || q >= base + F) && *q != pat((size_t)(q - g_lo), 11))
                {
                    violation("scatter (mid-table, converting)", std::string(tn<T>::name()) + "->" + tn<U>::name(), "a byte outside the table was modified");
                    break;
                }
        }
    }
    R.states += cnt;
    R.transitions += cnt * (uint64_t)(n + tab);
    R.per_op[std::string("gather/scatter(mid-table)<") + tn<T>::name() + "," + tn<U>::name() + ">"] += cnt;
}
template <class T, class... Us>
static void run_gather_scatter_mid_all()
{
    (run_gather_scatter_mid<T, Us>(), ...);
}

// ---- broadcast and element-list constructor ----
template <class T, size_t... I>
static B<T> from_list(const T* v, std::index_sequence<I...>) { return B<T>(v[I]...); }
template <class T>
static void run_fill()
{
    g_section = "constructors/fills";
    const size_t n = B<T>::size;
    T vals[64], got[64];
    for (size_t rep = 0; rep < 4; ++rep)
    {
        for (size_t i = 0; i < n; ++i)
            vals[i] = (T)((i + 1) * 3 + rep);
        B<T> l = from_list<T>(vals, std::make_index_sequence<B<T>::size> {});
        l.store_unaligned(got);
        ++R.states;
        R.transitions += n;
        if (memcmp(got, vals, n * sizeof(T)) != 0)
            violation("element-list constructor", tn<T>::name(), "lanes are not filled in argument order");
        for (size_t i = 0; i < n; ++i)
            if (l.get(i) != vals[i])
            {
                violation("get(i)", tn<T>::name(), "get(" + std::to_string(i) + ") does not return lane " + std::to_string(i));
                break;
            }
        B<T> b = xs::broadcast<T, A>(vals[rep]);
        B<T> b2(vals[rep]);
        B<T> b3 = B<T>::broadcast(vals[rep]);
        T g1[64], g2[64], g3[64];
        b.store_unaligned(g1);
        b2.store_unaligned(g2);
        b3.store_unaligned(g3);
        ++R.states;
        R.transitions += 3 * n;
        for (size_t i = 0; i < n; ++i)
            if (g1[i] != vals[rep] || g2[i] != vals[rep] || g3[i] != vals[rep])
            {
                violation("broadcast", tn<T>::name(), "lane " + std::to_string(i) + " does not hold the broadcast value");
                break;
            }
    }
    R.per_op[std::string("fill<") + tn<T>::name() + ">"] += 8;
}

template <class T>
static void run_type()
{
    g_type = tn<T>::name();
    run_plain<T>();
    run_bool<T>();
    run_gather_scatter<T>();
    run_gather_scatter_unsigned<T>();
    run_gather_scatter_mid_all<T, int8_t, uint8_t, int16_t, uint16_t, int32_t, uint32_t, int64_t, uint64_t, float, double>();
    run_fill<T>();
    run_convert_from<T, int8_t, uint8_t, int16_t, uint16_t, int32_t, uint32_t, int64_t, uint64_t, float, double>();
}

int main(int argc, char** argv)
{
    std::string out = "mem.json", tier = "quick";
    uint64_t seed = 0;
    for (int i = 1; i < argc; ++i)
    {
        std::string a = argv[i];
        if (a == "--out")
            out = argv[++i];
        else if (a == "--tier")
            tier = argv[++i];
        else if (a == "--seed")
            seed = strtoull(argv[++i], nullptr, 10);
    }
    g_arena = (unsigned char*)mmap(nullptr, 4 * PAGE, PROT_NONE, MAP_PRIVATE | MAP_ANONYMOUS, -1, 0);
    if (g_arena == MAP_FAILED || mprotect(g_arena + PAGE, 2 * PAGE, PROT_READ | PROT_WRITE))
    {
        perror("mmap");
        return 2;
    }
    g_lo = g_arena + PAGE;
    g_mid = g_arena + 2 * PAGE;
    g_hi = g_arena + 3 * PAGE;
    struct sigaction sa;
    memset(&sa, 0, sizeof sa);
    sa.sa_sigaction = on_segv;
    sa.sa_flags = SA_SIGINFO | SA_NODEFER;
    sigaction(SIGSEGV, &sa, nullptr);
    sigaction(SIGBUS, &sa, nullptr);
    double t0 = now_s();
    run_type<int8_t>();
    run_type<uint8_t>();
    run_type<int16_t>();
    run_type<uint16_t>();
    run_type<int32_t>();
    run_type<uint32_t>();
    run_type<int64_t>();
    run_type<uint64_t>();
    run_type<float>();
    run_type<double>();
    run_complex<float>();
    run_complex<double>();
    run_complex<float, 1>();
    run_complex<double, 1>();
    run_complex<float, 2>();
    run_complex<double, 2>();
    run_complex_split<float>();
    run_complex_split<double>();
    run_complex_mixed<float, double>();
    run_complex_mixed<double, float>();
    J j;
    j.obj();
    j.k("property_id").str("C04");
    j.k("tier").str(tier);
    j.k("seed").u(seed);
    j.k("arch").str(XV_ARCH_NAME);
    j.k("wall_s").num(now_s() - t0);
    j.k("states").u(R.states);
    j.k("transitions").u(R.transitions);
    j.k("per_op").obj();
    for (auto& kv : R.per_op)
        j.k(kv.first).u(kv.second);
    j.eobj();
    j.k("violations_total").u(R.total);
    j.k("by_key").obj();
    for (auto& kv : R.by_key)
        j.k(kv.first).u(kv.second);
    j.eobj();
    j.k("violations").arr();
    for (auto& v : R.violations)
        j.raw(v);
    j.earr();
    j.eobj();
    FILE* fp = fopen(out.c_str(), "w");
    fwrite(j.s.data(), 1, j.s.size(), fp);
    fclose(fp);
    fprintf(stderr, "[xvmem] %s: placements x operations=%llu lane/byte checks=%llu violations=%llu wall=%.1fs\n", XV_ARCH_NAME, (unsigned long long)R.states, (unsigned long long)R.transitions, (unsigned long long)R.total, now_s() - t0);
    return 0;
}
