// C06: batch_cast / to_int / to_float / broadcast_as / load_as / store_as for every accepted
// (From, To) pair, bitwise_cast between all element types of the register.
#include "xv_harness.hpp"
#include "xv_twin.hpp"

#include <deque>
#include <string>

namespace xv
{
    inline const char* keep(const std::string& s)
    {
        static std::deque<std::string> names;
        names.push_back(s);
        return names.back().c_str();
    }
    template <class T>
    const char* tname() { return xv_type_name[tcode<T>::value]; }

    // input slot: To::size elements of From converted on load
    template <class From, class To>
    struct LA
    {
    };
    template <class From, class To>
    struct slot<LA<From, To>>
    {
        static constexpr int nout = 1;
        static constexpr int lanes = (int)B<To>::size;
        static void codes(int* c) { c[0] = tcode<From>::value; }
        static B<To> load(const void* p, size_t i) { return xs::load_as<To, arch>((const From*)p + i, xs::unaligned_mode()); }
    };
    // output slot: batch<From> stored as To
    template <class From, class To>
    struct SA
    {
        B<From> v;
        SA(B<From> const& x)
            : v(x)
        {
        }
    };
    template <class From, class To>
    struct slot<SA<From, To>>
    {
        static constexpr int nout = 1;
        static constexpr int lanes = (int)B<From>::size;
        static void codes(int* c) { c[0] = tcode<To>::value; }
        static void store(void* const* out, size_t i, SA<From, To> const& v) { xs::store_as((To*)out[0] + i, v.v, xs::unaligned_mode()); }
    };
    // byte view of a register (bitwise_cast)
    template <class U>
    struct BY
    {
        B<U> v;
        BY(B<U> const& x)
            : v(x)
        {
        }
    };
    template <class U>
    struct slot<BY<U>>
    {
        static constexpr int nout = 1;
        static constexpr int lanes = (int)(B<U>::size * sizeof(U));
        static void codes(int* c) { c[0] = XV_U8; }
        static B<U> load(const void* p, size_t i) { return B<U>::load_unaligned((const U*)((const uint8_t*)p + i)); }
        static void store(void* const* out, size_t i, BY<U> const& v) { v.v.store_unaligned((U*)((uint8_t*)out[0] + i)); }
    };

    XV_OP1(op_id, a)
    template <class To>
    struct op_cast
    {
        template <class T, class X>
        static B<To> f(X const& a, long) { return xs::batch_cast<To>(a); }
    };
    template <class To>
    struct op_bitcast
    {
        template <class T, class X>
        static B<To> f(X const& a, long) { return xs::bitwise_cast<To>(a); }
    };
    template <class From, class To>
    struct op_bitcast_roundtrip
    {
        template <class T, class X>
        static B<From> f(X const& a, long) { return xs::bitwise_cast<From>(xs::bitwise_cast<To>(a)); }
    };
    XV_OP1(op_to_int, xs::to_int(a))
    XV_OP1(op_to_float, xs::to_float(a))

    // broadcast_as: one broadcast per element, lane (j mod lanes) of the result is observed
    template <class From, class To>
    int run_broadcast_as(const void* const* in, void* const* out, size_t n, xv_ctx*)
    {
        constexpr size_t L = B<To>::size;
        const From* p = (const From*)in[0];
        To* o = (To*)out[0];
        To buf[L];
        for (size_t j = 0; j < n; ++j)
        {
            auto b = xs::broadcast_as<To, arch>(p[j]);
            b.store_unaligned(buf);
            o[j] = buf[j % L];
        }
        return 0;
    }
    template <class From, class To>
    void reg_broadcast_as()
    {
        xv_op o;
        std::memset(&o, 0, sizeof o);
        o.prop = "C06";
        o.name = keep(std::string("broadcast_as.") + tname<From>());
        o.elem = tcode<To>::value;
        o.nin = 1;
        o.in_t[0] = tcode<From>::value;
        o.nout = 1;
        o.out_t[0] = tcode<To>::value;
        o.lanes = 1;
        o.fn = &run_broadcast_as<From, To>;
        registry().push_back(o);
    }

    template <class From, class To>
    void reg_pair()
    {
        // converting loads and stores exist for every arithmetic pair
        reg<op_id, To, B<To>, LA<From, To>>("C06", keep(std::string("load_as.") + tname<From>()));
        reg<op_id, To, SA<From, To>, B<From>>("C06", keep(std::string("store_as.") + tname<From>()));
        reg_broadcast_as<From, To>();
        if constexpr (sizeof(From) == sizeof(To))
            reg<op_cast<To>, To, B<To>, B<From>>("C06", keep(std::string("batch_cast.") + tname<From>()));
        // bitwise_cast: any two element types of the same register
        reg<op_bitcast<To>, To, BY<To>, BY<From>>("C06", keep(std::string("bitwise_cast.") + tname<From>() + ".to." + tname<To>()));
        reg<op_bitcast_roundtrip<From, To>, To, BY<From>, BY<From>>("C06", keep(std::string("bitwise_cast.") + tname<From>() + ".roundtrip." + tname<To>()));
    }
    template <class From, class... To>
    void reg_from(types<To...>) { (reg_pair<From, To>(), ...); }
    template <class... From>
    void reg_all(types<From...>) { (reg_from<From>(all_types {}), ...); }

    // twin element types (xv_twin.hpp) as source (".twinfrom") and as destination (".twinto") of every conversion
    template <class W, class U>
    void reg_twin_pair()
    {
        if constexpr (std::is_same<W, char>::value) // simd_return_type accepts a twin as memory type only for char
            reg<op_id, U, B<U>, LA<W, U>>("C06", keep(std::string("load_as.") + tname<W>() + ".twinfrom"));
        reg<op_id, W, B<W>, LA<U, W>>("C06", keep(std::string("load_as.") + tname<U>() + ".twinto"));
        reg<op_id, U, SA<W, U>, B<W>>("C06", keep(std::string("store_as.") + tname<W>() + ".twinfrom"));
        reg<op_id, W, SA<U, W>, B<U>>("C06", keep(std::string("store_as.") + tname<U>() + ".twinto"));
        if constexpr (sizeof(W) == sizeof(U))
        {
            reg<op_cast<U>, U, B<U>, B<W>>("C06", keep(std::string("batch_cast.") + tname<W>() + ".twinfrom"));
            reg<op_cast<W>, W, B<W>, B<U>>("C06", keep(std::string("batch_cast.") + tname<U>() + ".twinto"));
        }
        reg<op_bitcast<U>, U, BY<U>, BY<W>>("C06", keep(std::string("bitwise_cast.") + tname<W>() + ".to." + tname<U>() + ".twinfrom"));
        reg<op_bitcast<W>, W, BY<W>, BY<U>>("C06", keep(std::string("bitwise_cast.") + tname<U>() + ".to." + tname<W>() + ".twinto"));
    }
    template <class W, class... U>
    void reg_twin_from(types<U...>) { (reg_twin_pair<W, U>(), ...); }
    template <class... W>
    void reg_twins(types<W...>) { (reg_twin_from<W>(all_types {}), ...); }

    void register_ops()
    {
        reg_all(all_types {});
        reg_twins(twin_types {});

        reg<op_to_int, int32_t, B<int32_t>, B<float>>("C06", "to_int");
        reg<op_to_int, int64_t, B<int64_t>, B<double>>("C06", "to_int");
        reg<op_to_float, float, B<float>, B<int32_t>>("C06", "to_float");
        reg<op_to_float, double, B<double>, B<int64_t>>("C06", "to_float");
    }
}
XV_MODULE("conv")
