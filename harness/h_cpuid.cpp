// C15: CPUID / XGETBV decoding and dispatch.  The detector of xsimd_cpuid.hpp runs against an injected
// CPUID/XGETBV source (hook XSIMD_VERIF_CPUID / XSIMD_VERIF_XGETBV, cache bypassed); every
// hardware-presentable configuration of the bits it reads is enumerated and compared with a decision
// model written from the property.  Dispatch: one template instantiation per generated architecture
// list, executed under injected configurations.
#define XV_HOOK_CPUID 1
#include <xsimd/xsimd.hpp>

#include <memory>
#include <string>
#include <tuple>

#include "../engine/util.hpp"
#include XV_DISPATCH_LISTS

namespace xv
{
    thread_local tick_state tk = { 0, ~0ul, {} };
    thread_local cpu_config cpu = {};
}
using namespace xv;

// ---- the 23 x86 tags in best-first order ----
using tags_t = std::tuple<XV_TAG_TYPES>;
template <size_t I>
using tag = typename std::tuple_element<I, tags_t>::type;

struct Bit
{
    int leaf; // 1, 7, 71 (leaf 7 subleaf 1), 8 (0x80000001)
    int reg; // 0 eax 1 ebx 2 ecx 3 edx
    int bit;
};
enum OsState
{
    OS_XMM, // SSE*: XMM state (known only through XCR0 when OSXSAVE is set)
    OS_YMM, // VEX-encoded sets: OSXSAVE and XCR0[2:1] = 11
    OS_ZMM, // AVX512*: additionally XCR0[7:5] = 111
};
struct ArchModel
{
    const char* name;
    std::vector<Bit> own;
    OsState os;
    int parent; // index of the extension parent, -1 for sse2
};
// index order == XV_TAG_TYPES order
static const std::vector<ArchModel>& model()
{
    static const std::vector<ArchModel> m = {
        /* 0 avx512vnni<vbmi2> */ { "avx512vnni<avx512vbmi2>", { { 7, 2, 11 }, { 7, 2, 6 } }, OS_ZMM, 1 },
        /* 1 avx512vbmi2 */ { "avx512vbmi2", { { 7, 2, 6 } }, OS_ZMM, 2 },
        /* 2 avx512vbmi */ { "avx512vbmi", { { 7, 2, 1 } }, OS_ZMM, 3 },
        /* 3 avx512ifma */ { "avx512ifma", { { 7, 1, 21 } }, OS_ZMM, 6 },
        /* 4 avx512pf */ { "avx512pf", { { 7, 1, 26 } }, OS_ZMM, 7 },
        /* 5 avx512vnni<bw> */ { "avx512vnni<avx512bw>", { { 7, 2, 11 } }, OS_ZMM, 6 },
        /* 6 avx512bw */ { "avx512bw", { { 7, 1, 30 } }, OS_ZMM, 8 },
        /* 7 avx512er */ { "avx512er", { { 7, 1, 27 } }, OS_ZMM, 9 },
        /* 8 avx512dq */ { "avx512dq", { { 7, 1, 17 } }, OS_ZMM, 9 },
        /* 9 avx512cd */ { "avx512cd", { { 7, 1, 28 } }, OS_ZMM, 10 },
        /* 10 avx512f */ { "avx512f", { { 7, 1, 16 } }, OS_ZMM, 13 },
        /* 11 avxvnni */ { "avxvnni", { { 71, 0, 4 } }, OS_YMM, 13 },
        /* 12 fma3<avx2> */ { "fma3<avx2>", { { 7, 1, 5 }, { 1, 2, 12 } }, OS_YMM, 13 },
        /* 13 avx2 */ { "avx2", { { 7, 1, 5 } }, OS_YMM, 15 },
        /* 14 fma3<avx> */ { "fma3<avx>", { { 1, 2, 28 }, { 1, 2, 12 } }, OS_YMM, 15 },
        /* 15 avx */ { "avx", { { 1, 2, 28 } }, OS_YMM, 18 },
        /* 16 fma4 */ { "fma4", { { 8, 2, 16 } }, OS_YMM, 18 },
        /* 17 fma3<sse4_2> */ { "fma3<sse4_2>", { { 1, 2, 12 } }, OS_YMM, 18 },
        /* 18 sse4_2 */ { "sse4_2", { { 1, 2, 20 } }, OS_XMM, 19 },
        /* 19 sse4_1 */ { "sse4_1", { { 1, 2, 19 } }, OS_XMM, 20 },
        /* 20 ssse3 */ { "ssse3", { { 1, 2, 9 } }, OS_XMM, 21 },
        /* 21 sse3 */ { "sse3", { { 1, 2, 0 } }, OS_XMM, 22 },
        /* 22 sse2 */ { "sse2", { { 1, 3, 26 } }, OS_XMM, -1 },
    };
    return m;
}

static inline bool getbit(const cpu_config& c, const Bit& b)
{
    uint32_t r = 0;
    if (b.leaf == 1)
        r = b.reg == 2 ? c.l1_ecx : c.l1_edx;
    else if (b.leaf == 7)
        r = b.reg == 1 ? c.l7_ebx : c.l7_ecx;
    else if (b.leaf == 71)
        r = c.l7_1_eax;
    else
        r = c.l80000001_ecx;
    return (r >> b.bit) & 1;
}
static inline void setbit(cpu_config& c, const Bit& b)
{
    uint32_t m = 1u << b.bit;
    if (b.leaf == 1)
        (b.reg == 2 ? c.l1_ecx : c.l1_edx) |= m;
    else if (b.leaf == 7)
        (b.reg == 1 ? c.l7_ebx : c.l7_ecx) |= m;
    else if (b.leaf == 71)
        c.l7_1_eax |= m;
    else
        c.l80000001_ecx |= m;
}

template <size_t... I>
static void read_flags(const xsimd::detail::supported_arch& sa, bool* out, std::index_sequence<I...>)
{
    bool v[] = { sa.has(tag<I> {})... };
    for (size_t k = 0; k < sizeof...(I); ++k)
        out[k] = v[k];
}

// the 20 feature bits the detector reads (OSXSAVE excluded)
static const Bit FEATURE_BITS[20] = {
    { 1, 2, 0 }, { 1, 2, 9 }, { 1, 2, 12 }, { 1, 2, 19 }, { 1, 2, 20 }, { 1, 2, 28 }, { 1, 3, 26 },
    { 7, 1, 5 }, { 7, 1, 16 }, { 7, 1, 17 }, { 7, 1, 21 }, { 7, 1, 26 }, { 7, 1, 27 }, { 7, 1, 28 }, { 7, 1, 30 },
    { 7, 2, 1 }, { 7, 2, 6 }, { 7, 2, 11 }, { 71, 0, 4 }, { 8, 2, 16 }
};
// OS states hardware can present: OSXSAVE clear; OSXSAVE set with XCR0 = x87 | XMM? | YMM? | opmask+ZMM (all or none)
static const struct
{
    bool osxsave;
    uint32_t xcr0;
    const char* name;
} OS_STATES[5] = {
    { false, 0, "OSXSAVE=0" },
    { true, 0x01, "XCR0=x87" },
    { true, 0x03, "XCR0=x87|XMM" },
    { true, 0x07, "XCR0=x87|XMM|YMM" },
    { true, 0xE7, "XCR0=x87|XMM|YMM|opmask|ZMM" },
};

struct Result
{
    uint64_t states = 0, transitions = 0, unknown = 0, total = 0;
    std::map<std::string, uint64_t> by_key, by_finding;
    std::vector<std::string> violations_json;
    std::set<std::string> known_open;
    std::vector<std::string> samples;
    std::mutex mu;
};

static std::string cfg_json(const cpu_config& c, bool osxsave)
{
    char b[256];
    snprintf(b, sizeof b, "{\"leaf1_ecx\":\"0x%08x\",\"leaf1_edx\":\"0x%08x\",\"leaf7_ebx\":\"0x%08x\",\"leaf7_ecx\":\"0x%08x\",\"leaf7_1_eax\":\"0x%08x\",\"leaf80000001_ecx\":\"0x%08x\",\"osxsave\":%s,\"xcr0\":\"0x%02x\"}",
             c.l1_ecx, c.l1_edx, c.l7_ebx, c.l7_ecx, c.l7_1_eax, c.l80000001_ecx, osxsave ? "true" : "false", c.xcr0);
    return b;
}

static void add_violation(Result& R, const std::string& op, const std::string& what, const cpu_config& c, bool osxsave, const std::string& finding, const std::string& extra = "")
{
    std::lock_guard<std::mutex> g(R.mu);
    ++R.total;
    std::string fid = (!finding.empty() && R.known_open.count(finding)) ? finding : "";
    if (fid.empty())
        ++R.unknown;
    else
        ++R.by_finding[fid];
    uint64_t& n = R.by_key[op + "|config|host|" + fid];
    if (++n <= 3 && R.violations_json.size() < 200)
    {
        J j;
        j.obj();
        j.k("property").str("C15");
        j.k("op").str(op);
        j.k("arch").str("host");
        j.k("type").str("config");
        j.k("note").str(what);
        j.k("config").raw(cfg_json(c, osxsave));
        if (!extra.empty())
            j.k("detail").str(extra);
        j.k("finding").str(fid);
        j.k("in").arr().earr();
        j.eobj();
        R.violations_json.push_back(j.s);
    }
}

static bool os_ok(OsState s, bool osxsave, uint32_t xcr0)
{
    switch (s)
    {
    case OS_XMM:
        return !osxsave || (xcr0 & 0x2); // without OSXSAVE the XMM state is governed by CR4.OSFXSR, which CPUID does not show
    case OS_YMM:
        return osxsave && (xcr0 & 0x6) == 0x6;
    default:
        return osxsave && (xcr0 & 0x6) == 0x6 && (xcr0 & 0xE0) == 0xE0;
    }
}

// judges one configuration; returns the availability vector
static void judge_config(Result& R, const cpu_config& base, bool osxsave, bool record, bool* avail)
{
    cpu = base;
    cpu.xgetbv_calls = cpu.cpuid_calls = cpu.bad_leaf = 0;
    xsimd::detail::supported_arch sa;
    read_flags(sa, avail, std::make_index_sequence<XV_NTAGS> {});
    if (!record)
        return;
    const auto& M = model();
    if (!osxsave && cpu.xgetbv_calls)
        add_violation(R, "xgetbv", "XGETBV executed although CPUID.1:ECX.OSXSAVE is clear (the instruction would fault)", base, osxsave, "");
    if (cpu.bad_leaf)
        add_violation(R, "cpuid", "a CPUID leaf outside {0, 1, 7.0, 7.1, 0x80000000, 0x80000001} was read", base, osxsave, "");
    bool closed = true;
    for (size_t i = 0; i < M.size() && closed; ++i)
    {
        bool own = true;
        for (auto& b : M[i].own)
            own = own && getbit(base, b);
        if (own && M[i].parent >= 0)
            for (auto& b : M[(size_t)M[i].parent].own)
                if (!getbit(base, b))
                    closed = false;
    }
    for (size_t i = 0; i < M.size(); ++i)
    {
        if (!avail[i])
            continue;
        bool own = true;
        for (auto& b : M[i].own)
            own = own && getbit(base, b);
        if (!own)
            add_violation(R, std::string("available:") + M[i].name, std::string(M[i].name) + " reported available although the CPU does not advertise its feature bit(s)", base, osxsave, "");
        if (!os_ok(M[i].os, osxsave, base.xcr0))
            add_violation(R, std::string("available:") + M[i].name, std::string(M[i].name) + " reported available although the OS has not enabled the register state its instructions use", base, osxsave, "");
        if (closed && M[i].parent >= 0 && !avail[(size_t)M[i].parent])
            add_violation(R, std::string("monotone:") + M[i].name, std::string(M[i].name) + " available but its extension parent " + M[(size_t)M[i].parent].name + " is not (feature bits closed under the chain)", base, osxsave, "");
    }
}

// ---- dispatch ----
struct Probe
{
    int* calls;
    int* tagidx;
    template <class Arch>
    long operator()(Arch, int& lv, std::unique_ptr<int>&& rv, const std::string& cs) const
    {
        ++*calls;
        *tagidx = index_of<Arch>(std::make_index_sequence<XV_NTAGS> {});
        lv += 5;
        std::unique_ptr<int> taken = std::move(rv);
        return (long)*taken * 3 + (long)cs.size();
    }
    template <class Arch, size_t... I>
    static int index_of(std::index_sequence<I...>)
    {
        int r = -1;
        bool m[] = { std::is_same<Arch, tag<I>>::value... };
        for (size_t k = 0; k < sizeof...(I); ++k)
            if (m[k])
                r = (int)k;
        return r;
    }
};

// further functor shapes (explored on every fifth list and on every single-element list)
struct ProbeVoid // no extra argument, void result, non-const call operator (counters live outside: the dispatcher may hold a copy or a reference)
{
    int* calls;
    int* tagidx;
    template <class Arch>
    void operator()(Arch)
    {
        ++*calls;
        *tagidx = Probe::index_of<Arch>(std::make_index_sequence<XV_NTAGS> {});
    }
};
struct ProbeRef // returns a reference to its lvalue argument: the caller must get that very object back
{
    int* calls;
    template <class Arch>
    int& operator()(Arch, int& x) const
    {
        ++*calls;
        return x;
    }
};
struct ProbeMove // move-only result, const lvalue and by-value arguments
{
    int* calls;
    int* tagidx;
    template <class Arch>
    std::unique_ptr<long> operator()(Arch, const int& a, long b, double c) const
    {
        ++*calls;
        *tagidx = Probe::index_of<Arch>(std::make_index_sequence<XV_NTAGS> {});
        return std::unique_ptr<long>(new long(a * 1000 + b * 10 + (long)c));
    }
};

template <size_t... I>
struct mk_list
{
    using type = xsimd::arch_list<tag<I>...>;
    static std::vector<int> indices() { return { (int)I... }; }
};
#define XV_UNPAREN(...) __VA_ARGS__
#define XV_DECL(K, L) using list_##K = mk_list<XV_UNPAREN L>;
XV_LISTS(XV_DECL)

template <class ML>
static void run_list(Result& R, int K)
{
    using AL = typename ML::type;
    const std::vector<int> idx = ML::indices();
    const auto& M = model();
    std::vector<std::pair<cpu_config, bool>> cfgs;
    auto mk = [&](const std::vector<int>& on, bool osxsave, uint32_t xcr0)
    {
        cpu_config c;
        memset(&c, 0, sizeof c);
        for (int a : on)
            for (auto& b : M[(size_t)a].own)
                setbit(c, b);
        if (osxsave)
            c.l1_ecx |= 1u << 27;
        c.xcr0 = xcr0;
        cfgs.push_back({ c, osxsave });
    };
    const size_t k = idx.size();
    if (k <= 4)
    {
        for (unsigned m = 1; m < (1u << k); ++m)
        {
            std::vector<int> on;
            for (size_t p = 0; p < k; ++p)
                if (m >> p & 1)
                    on.push_back(idx[p]);
            mk(on, true, 0xE7);
        }
    }
    else
    {
        for (size_t p = 0; p < k; ++p)
        {
            mk({ idx[p] }, true, 0xE7); // only position p can be available
            std::vector<int> rest(idx.begin() + (long)p, idx.end());
            mk(rest, true, 0xE7); // p and everything after it
        }
    }
    // all feature bits on under each OS state
    {
        std::vector<int> all;
        for (int a = 0; a < XV_NTAGS; ++a)
            all.push_back(a);
        mk(all, false, 0);
        mk(all, true, 0x03);
        mk(all, true, 0x07);
        mk(all, true, 0xE7);
    }
    for (auto& cf : cfgs)
    {
        bool avail[XV_NTAGS];
        judge_config(R, cf.first, cf.second, false, avail);
        int first = -1;
        for (size_t p = 0; p < k && first < 0; ++p)
            if (avail[idx[p]])
                first = idx[p];
        ++R.states;
        if (first < 0)
            continue; // no member available: outside the property
        cpu = cf.first;
        int calls = 0, tagidx = -1, lv = 100;
        std::unique_ptr<int> rv(new int(14));
        const std::string cs = "hello";
        Probe pr { &calls, &tagidx };
        long r = xsimd::dispatch<AL>(pr)(lv, std::move(rv), cs);
        ++R.transitions;
        std::string list;
        for (int a : idx)
            list += std::string(list.empty() ? "" : ", ") + xv_tag_names[a];
        if (calls != 1)
            add_violation(R, "dispatch", "functor invoked " + std::to_string(calls) + " times", cf.first, cf.second, "", "list " + std::to_string(K) + ": " + list);
        else if (tagidx != first)
            add_violation(R, "dispatch", std::string("dispatched to ") + (tagidx >= 0 ? xv_tag_names[tagidx] : "?") + " but the first available architecture of the list is " + xv_tag_names[first], cf.first, cf.second, "", "list " + std::to_string(K) + ": " + list);
        if (lv != 105 || rv || r != 14 * 3 + 5)
            add_violation(R, "dispatch", "arguments or result not forwarded (lvalue " + std::to_string(lv) + ", rvalue " + (rv ? "not moved" : "moved") + ", result " + std::to_string(r) + ")", cf.first, cf.second, "", "list " + std::to_string(K) + ": " + list);
        if (K % 5 == 0 || k == 1)
        {
            // the same dispatcher object called twice: one invocation per call, the same architecture both times
            int cv = 0, tv = -1;
            ProbeVoid pv { &cv, &tv };
            auto dv = xsimd::dispatch<AL>(pv);
            static_assert(std::is_void<decltype(dv())>::value, "dispatch of a void functor returns void");
            dv();
            const int first_tag = tv;
            dv();
            R.transitions += 2;
            if (cv != 2 || first_tag != first || tv != first)
                add_violation(R, "dispatch", "void functor without arguments, dispatcher called twice: " + std::to_string(cv) + " invocations, architectures " + std::to_string(first_tag) + " and " + std::to_string(tv) + ", expected " + std::to_string(first) + " both times", cf.first, cf.second, "", "list " + std::to_string(K) + ": " + list);
            int c2 = 0, x = 7;
            ProbeRef prf { &c2 };
            auto&& back = xsimd::dispatch<AL>(prf)(x);
            static_assert(std::is_same<decltype(xsimd::dispatch<AL>(prf)(x)), int&>::value, "dispatch of a functor returning int& returns int&");
            ++R.transitions;
            if (c2 != 1 || &back != &x)
                add_violation(R, "dispatch", "functor returning a reference: " + std::to_string(c2) + " invocations, the returned reference " + (&back == &x ? "is" : "is not") + " the argument object", cf.first, cf.second, "", "list " + std::to_string(K) + ": " + list);
            int c3 = 0, t3 = -1;
            const int ca = 3;
            const ProbeMove pm { &c3, &t3 };
            std::unique_ptr<long> up = xsimd::dispatch<AL>(pm)(ca, 4L, 5.0);
            ++R.transitions;
            if (c3 != 1 || t3 != first || !up || *up != 3045)
                add_violation(R, "dispatch", "const functor with a move-only result: " + std::to_string(c3) + " invocations, architecture " + std::to_string(t3) + " (expected " + std::to_string(first) + "), result " + (up ? std::to_string(*up) : std::string("null")), cf.first, cf.second, "", "list " + std::to_string(K) + ": " + list);
        }
    }
}

// static part: default list ordered best-first with best_arch at its head, parents after children
template <size_t... I>
static bool order_ok(std::index_sequence<I...>)
{
    using all = xsimd::all_x86_architectures;
    return std::is_same<all, xsimd::arch_list<tag<I>...>>::value;
}
static_assert(std::is_same<xsimd::best_arch, typename xsimd::supported_architectures::best>::value, "best_arch heads supported_architectures");

int main(int argc, char** argv)
{
    std::string out = "cpuid.json", known;
    uint64_t seed = 0;
    std::string tier = "quick";
    for (int i = 1; i < argc; ++i)
    {
        std::string a = argv[i];
        if (a == "--out")
            out = argv[++i];
        else if (a == "--known")
            known = argv[++i];
        else if (a == "--seed")
            seed = strtoull(argv[++i], nullptr, 10);
        else if (a == "--tier")
            tier = argv[++i];
        else if (a == "--replay-config")
        {
            // l1_ecx,l1_edx,l7_ebx,l7_ecx,l7_1_eax,l80000001_ecx,xcr0 (hex); OSXSAVE is bit 27 of l1_ecx
            cpu_config c;
            memset(&c, 0, sizeof c);
            unsigned v[7] = {};
            sscanf(argv[++i], "%x,%x,%x,%x,%x,%x,%x", &v[0], &v[1], &v[2], &v[3], &v[4], &v[5], &v[6]);
            c.l1_ecx = v[0];
            c.l1_edx = v[1];
            c.l7_ebx = v[2];
            c.l7_ecx = v[3];
            c.l7_1_eax = v[4];
            c.l80000001_ecx = v[5];
            c.xcr0 = v[6];
            Result R2;
            bool av1[XV_NTAGS], av2[XV_NTAGS];
            judge_config(R2, c, (c.l1_ecx >> 27) & 1, true, av1);
            uint64_t first = R2.total;
            judge_config(R2, c, (c.l1_ecx >> 27) & 1, true, av2);
            if (memcmp(av1, av2, sizeof av1) || R2.total != 2 * first)
            {
                printf("REPLAY-NONDETERMINISTIC\n");
                return 3;
            }
            printf("REPLAY %s violations=%llu\n", first ? "FAILS" : "passes", (unsigned long long)first);
            for (auto& s : R2.violations_json)
                printf("%s\n", s.c_str());
            return first ? 1 : 0;
        }
    }
    Result R;
    {
        std::string cur;
        for (char ch : known + ",")
        {
            if (ch == ',')
            {
                if (!cur.empty())
                    R.known_open.insert(cur);
                cur.clear();
            }
            else
                cur += ch;
        }
    }
    double t0 = now_s();
    // ---- detection: 2^20 feature configurations x 5 OS states, exhaustive ----
    const uint64_t NF = 1ull << 20;
    std::atomic<uint64_t> states { 0 }, trans { 0 };
    parallel_for(NF / 4096, 16, [&](int, uint64_t chunk)
                 {
        uint64_t st = 0, tr = 0;
        for (uint64_t m = chunk * 4096; m < (chunk + 1) * 4096; ++m)
            for (int os = 0; os < 5; ++os)
            {
                cpu_config c;
                memset(&c, 0, sizeof c);
                for (int b = 0; b < 20; ++b)
                    if (m >> b & 1)
                        setbit(c, FEATURE_BITS[b]);
                if (OS_STATES[os].osxsave)
                    c.l1_ecx |= 1u << 27;
                c.xcr0 = OS_STATES[os].xcr0;
                bool avail[XV_NTAGS];
                judge_config(R, c, OS_STATES[os].osxsave, true, avail);
                ++st;
                tr += XV_NTAGS;
            }
        states += st;
        trans += tr; });
    R.states += states;
    R.transitions += trans;
    uint64_t det_states = states;
    // ---- dispatch programs ----
    uint64_t before = R.transitions;
#define XV_RUN(K, L) run_list<list_##K>(R, K);
    XV_LISTS(XV_RUN)
    uint64_t dispatch_calls = R.transitions - before;
    // default list order
    bool ord = order_ok(std::make_index_sequence<XV_NTAGS> {});
    if (!ord)
    {
        cpu_config c;
        memset(&c, 0, sizeof c);
        add_violation(R, "order", "all_x86_architectures differs from the best-first order the model assumes", c, false, "");
    }
    {
        // every tag precedes its extension parent in the default list
        const auto& M = model();
        for (size_t i = 0; i < M.size(); ++i)
            if (M[i].parent >= 0 && (size_t)M[i].parent < i)
            {
                cpu_config c;
                memset(&c, 0, sizeof c);
                add_violation(R, "order", std::string(M[i].name) + " is listed after its extension parent", c, false, "");
            }
    }
    J j;
    j.obj();
    j.k("property_id").str("C15");
    j.k("tier").str(tier);
    j.k("seed").u(seed);
    j.k("wall_s").num(now_s() - t0);
    j.k("states").u(R.states);
    j.k("transitions").u(R.transitions);
    j.k("distinct_nontrivial").u(det_states);
    j.k("exhaustive").b(true);
    j.k("detection_configurations").u(det_states);
    j.k("dispatch_programs").u(XV_NLISTS);
    j.k("dispatch_calls").u(dispatch_calls);
    j.k("architectures").arr().str("host (injected CPUID/XGETBV)").earr();
    j.k("samples").arr();
    j.raw("{\"configuration\":{\"leaf1_ecx\":\"0x18181201\",\"leaf1_edx\":\"0x04000000\",\"leaf7_ebx\":\"0x00010020\",\"osxsave\":true,\"xcr0\":\"0x07\"},\"note\":\"one of the enumerated configurations: all SSE bits, AVX, AVX2, AVX512F advertised, OS enabled XMM+YMM only\"}");
    j.raw("{\"dispatch_list\":\"list 0 = {avx512vnni<avx512vbmi2>}, last list = a seed-derived sub-list; each list is run under every availability vector for <= 4 members, and first-available-at-position-p x {alone, with the rest} beyond\"}");
    j.earr();
    j.k("notes").arr();
    j.str("detection: 2^20 combinations of the 20 feature bits x {OSXSAVE=0, XCR0 in {x87, x87|XMM, x87|XMM|YMM, x87|XMM|YMM|opmask|ZMM}}");
    j.str("dispatch: " + std::to_string(XV_NLISTS) + " generated architecture lists (all sub-lists of length <= 2, all contiguous windows, reversed pairs, seed sub-lists)");
    j.earr();
    j.k("per_op").obj().eobj();
    j.k("vacuous_ops").arr().earr();
    j.k("saturated").arr().earr();
    j.k("violations_total").u(R.total);
    j.k("violations_unknown").u(R.unknown);
    j.k("by_finding").obj();
    for (auto& kv : R.by_finding)
        j.k(kv.first).u(kv.second);
    j.eobj();
    j.k("by_key").obj();
    for (auto& kv : R.by_key)
        j.k(kv.first).u(kv.second);
    j.eobj();
    j.k("violations").arr();
    for (auto& v : R.violations_json)
        j.raw(v);
    j.earr();
    j.eobj();
    FILE* fp = fopen(out.c_str(), "w");
    fwrite(j.s.data(), 1, j.s.size(), fp);
    fclose(fp);
    fprintf(stderr, "[xvcpuid] C15: detection configs=%llu dispatch programs=%d calls=%llu violations=%llu (unknown %llu) wall=%.1fs\n", (unsigned long long)det_states, XV_NLISTS, (unsigned long long)dispatch_calls, (unsigned long long)R.total, (unsigned long long)R.unknown, now_s() - t0);
    return 0;
}
