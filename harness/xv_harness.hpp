// Common part of every per-architecture harness object: slot-typed array runners around the
// real xsimd kernels of architecture XV_ARCH, and the registry exported through xv_get_module().
#pragma once
#include <xsimd/xsimd.hpp>

#include <climits>
#include <cstring>
#include <type_traits>
#include <utility>
#include <vector>

#include "../engine/xv_abi.h"

#ifndef XV_ARCH
#error "XV_ARCH must name the xsimd architecture tag"
#endif
#ifndef XV_ARCH_NAME
#error "XV_ARCH_NAME must be the architecture's name in the build matrix"
#endif

namespace xv
{
    namespace xs = xsimd;
    using arch = XV_ARCH;
    template <class T>
    using B = xs::batch<T, arch>;
    template <class T>
    using BB = xs::batch_bool<T, arch>;

    thread_local tick_state tk = { 0, ULONG_MAX, {} };

    template <class T>
    struct tcode;
#define XV_TC(T, C)                        \
    template <>                            \
    struct tcode<T>                        \
    {                                      \
        static constexpr int value = C;    \
    };
    XV_TC(int8_t, XV_I8)
    XV_TC(uint8_t, XV_U8)
    XV_TC(int16_t, XV_I16)
    XV_TC(uint16_t, XV_U16)
    XV_TC(int32_t, XV_I32)
    XV_TC(uint32_t, XV_U32)
    XV_TC(int64_t, XV_I64)
    XV_TC(uint64_t, XV_U64)
    XV_TC(float, XV_F32)
    XV_TC(double, XV_F64)
#undef XV_TC

    // ---- slots: how one operand/result kind is moved between arrays and registers --------
    template <class S>
    struct slot;
    template <class U>
    struct slot<xs::batch<U, arch>>
    {
        static constexpr int nout = 1;
        static constexpr int lanes = (int)B<U>::size;
        static void codes(int* c) { c[0] = tcode<U>::value; }
        static B<U> load(const void* p, size_t i) { return B<U>::load_unaligned((const U*)p + i); }
        static void store(void* const* out, size_t i, B<U> const& v) { v.store_unaligned((U*)out[0] + i); }
    };
    template <class U>
    struct slot<xs::batch_bool<U, arch>>
    {
        static constexpr int nout = 1;
        static constexpr int lanes = (int)B<U>::size;
        static void codes(int* c) { c[0] = XV_BOOL; }
        static BB<U> load(const void* p, size_t i) { return BB<U>::load_unaligned((const bool*)p + i); }
        static void store(void* const* out, size_t i, BB<U> const& v) { v.store_unaligned((bool*)out[0] + i); }
    };
    template <class X, class Y>
    struct slot<std::pair<X, Y>>
    {
        static constexpr int nout = 2;
        static constexpr int lanes = slot<X>::lanes;
        static void codes(int* c)
        {
            slot<X>::codes(c);
            slot<Y>::codes(c + 1);
        }
        static void store(void* const* out, size_t i, std::pair<X, Y> const& v)
        {
            slot<X>::store(out, i, v.first);
            slot<Y>::store(out + 1, i, v.second);
        }
    };
    // a scalar result (reductions, all/any/count): stored once per batch, replicated to every lane
    // position of the batch so that arrays keep one stride.
    template <class U, class T>
    struct scalar_of
    {
        U v;
    };
    template <class U, class T>
    struct slot<scalar_of<U, T>>
    {
        static constexpr int nout = 1;
        static constexpr int lanes = (int)B<T>::size;
        static void codes(int* c) { c[0] = tcode<U>::value; }
        static void store(void* const* out, size_t i, scalar_of<U, T> const& v)
        {
            for (int k = 0; k < lanes; ++k)
                ((U*)out[0])[i + k] = v.v;
        }
    };

    inline std::vector<xv_op>& registry()
    {
        static std::vector<xv_op> r;
        return r;
    }

    template <class Op, class T, class Out, class... In, size_t... I>
    inline Out call(const void* const* in, size_t i, long param, std::index_sequence<I...>)
    {
        return Op::template f<T>(slot<In>::load(in[I], i)..., param);
    }

    template <class Op, class T, class Out, class... In>
    int runner(const void* const* in, void* const* out, size_t n, xv_ctx* ctx)
    {
        constexpr size_t L = slot<Out>::lanes;
        const long param = ctx ? ctx->param : 0;
#ifdef XV_TICKED
        if (ctx && ctx->tick_cap)
        {
            ctx->aborted_at = -1;
            ctx->max_ticks = 0;
            tk.cap = ctx->tick_cap;
            volatile size_t vi = 0;
            if (sigsetjmp(tk.env, 0))
            {
                ctx->aborted_at = (long)vi;
                if (tk.ticks > ctx->max_ticks)
                    ctx->max_ticks = tk.ticks;
                tk.cap = ULONG_MAX;
                return 0;
            }
            for (size_t i = 0; i + L <= n; i += L)
            {
                vi = i;
                tk.ticks = 0;
                slot<Out>::store(out, i, call<Op, T, Out, In...>(in, i, param, std::index_sequence_for<In...> {}));
                if (ctx->ticks)
                    ctx->ticks[i / L] = (uint32_t)tk.ticks;
                if (tk.ticks > ctx->max_ticks)
                    ctx->max_ticks = tk.ticks;
            }
            tk.cap = ULONG_MAX;
            return 0;
        }
#endif
        for (size_t i = 0; i + L <= n; i += L)
            slot<Out>::store(out, i, call<Op, T, Out, In...>(in, i, param, std::index_sequence_for<In...> {}));
        return 0;
    }

    template <class Op, class T, class Out, class... In>
    void reg(const char* prop, const char* name)
    {
        xv_op o;
        std::memset(&o, 0, sizeof o);
        o.prop = prop;
        o.name = name;
        o.elem = tcode<T>::value;
        o.nin = (int)sizeof...(In);
        int k = 0;
        int dummy[] = { 0, (slot<In>::codes(&o.in_t[k++]), 0)... };
        (void)dummy;
        o.nout = slot<Out>::nout;
        slot<Out>::codes(o.out_t);
        o.lanes = slot<Out>::lanes;
        o.fn = &runner<Op, T, Out, In...>;
        registry().push_back(o);
    }

    template <class... T>
    struct types
    {
    };
    using int_types = types<int8_t, uint8_t, int16_t, uint16_t, int32_t, uint32_t, int64_t, uint64_t>;
    using fp_types = types<float, double>;
    using all_types = types<int8_t, uint8_t, int16_t, uint16_t, int32_t, uint32_t, int64_t, uint64_t, float, double>;

    // shapes
    template <class Op, class... T>
    void reg_u(const char* p, const char* n, types<T...>) { (reg<Op, T, B<T>, B<T>>(p, n), ...); }
    template <class Op, class... T>
    void reg_b(const char* p, const char* n, types<T...>) { (reg<Op, T, B<T>, B<T>, B<T>>(p, n), ...); }
    template <class Op, class... T>
    void reg_t(const char* p, const char* n, types<T...>) { (reg<Op, T, B<T>, B<T>, B<T>, B<T>>(p, n), ...); }
    template <class Op, class... T>
    void reg_um(const char* p, const char* n, types<T...>) { (reg<Op, T, B<T>, B<T>, BB<T>>(p, n), ...); } // (value, mask) -> value
    template <class Op, class... T>
    void reg_cmp(const char* p, const char* n, types<T...>) { (reg<Op, T, BB<T>, B<T>, B<T>>(p, n), ...); }
    template <class Op, class... T>
    void reg_pred(const char* p, const char* n, types<T...>) { (reg<Op, T, BB<T>, B<T>>(p, n), ...); }
    template <class Op, class... T>
    void reg_sel(const char* p, const char* n, types<T...>) { (reg<Op, T, B<T>, BB<T>, B<T>, B<T>>(p, n), ...); }
    template <class Op, class... T>
    void reg_mu(const char* p, const char* n, types<T...>) { (reg<Op, T, BB<T>, BB<T>>(p, n), ...); }
    template <class Op, class... T>
    void reg_mb(const char* p, const char* n, types<T...>) { (reg<Op, T, BB<T>, BB<T>, BB<T>>(p, n), ...); }

    void register_ops(); // defined by the harness translation unit
}

// A unit of registrations that the library accepts only for some (architecture, element type)
// combinations.  Acceptance is decided by trial compilation (engine/vlib.py): XV_OFF_<name> is a bit
// mask of element-type codes for which the unit is left out.  Define `template <class T> void
// feature_<name>()` after XV_FEATURE(name) and call maybe_<name><T>() from register_ops().
#define XV_FEATURE(NAME)                                                 \
    template <class T>                                                   \
    void feature_##NAME();                                               \
    template <class T>                                                   \
    void maybe_##NAME()                                                  \
    {                                                                    \
        if constexpr (!((XV_OFF_##NAME >> tcode<T>::value) & 1))         \
            feature_##NAME<T>();                                         \
    }
#define XV_CAT2(a, b) a##b
#define XV_CAT(a, b) XV_CAT2(a, b)
#if defined(XV_PROBE_FEATURE) && defined(XV_PROBE_ALL_TYPES)
#define XV_PROBE_INSTANTIATE                                                   \
    template void xv::XV_CAT(feature_, XV_PROBE_FEATURE)<int8_t>();            \
    template void xv::XV_CAT(feature_, XV_PROBE_FEATURE)<uint8_t>();           \
    template void xv::XV_CAT(feature_, XV_PROBE_FEATURE)<int16_t>();           \
    template void xv::XV_CAT(feature_, XV_PROBE_FEATURE)<uint16_t>();          \
    template void xv::XV_CAT(feature_, XV_PROBE_FEATURE)<int32_t>();           \
    template void xv::XV_CAT(feature_, XV_PROBE_FEATURE)<uint32_t>();          \
    template void xv::XV_CAT(feature_, XV_PROBE_FEATURE)<int64_t>();           \
    template void xv::XV_CAT(feature_, XV_PROBE_FEATURE)<uint64_t>();          \
    template void xv::XV_CAT(feature_, XV_PROBE_FEATURE)<float>();             \
    template void xv::XV_CAT(feature_, XV_PROBE_FEATURE)<double>();
#elif defined(XV_PROBE_FEATURE)
#define XV_PROBE_INSTANTIATE template void xv::XV_CAT(feature_, XV_PROBE_FEATURE)<XV_PROBE_TYPE>();
#else
#define XV_PROBE_INSTANTIATE
#endif

// batch (op) scalar / scalar (op) batch spellings: the scalar operand comes lane by lane from the second (first)
// operand array; lane l of the result is lane l of `batch OP scalar_l`, so the element-wise reference applies unchanged
#define XV_SCALAR_RHS(NAME, EXPR) /* EXPR over batch a and scalar s */          \
    struct NAME                                                                \
    {                                                                          \
        template <class T, class X>                                            \
        static X f(X const& a_, X const& b_, long)                             \
        {                                                                      \
            T av[X::size], bv[X::size], rv[X::size];                           \
            a_.store_unaligned(av);                                            \
            b_.store_unaligned(bv);                                            \
            for (size_t l = 0; l < X::size; ++l)                               \
            {                                                                  \
                const X a(av[l]); /* every lane holds the pair of lane l (a division must not meet another lane's divisor) */ \
                const T s = bv[l];                                             \
                X r = (EXPR);                                                  \
                rv[l] = r.get(l);                                              \
            }                                                                  \
            return X::load_unaligned(rv);                                      \
        }                                                                      \
    };
#define XV_SCALAR_LHS(NAME, EXPR) /* EXPR over scalar s and batch b */          \
    struct NAME                                                                \
    {                                                                          \
        template <class T, class X>                                            \
        static X f(X const& a_, X const& b_, long)                             \
        {                                                                      \
            T av[X::size], bv[X::size], rv[X::size];                           \
            a_.store_unaligned(av);                                            \
            b_.store_unaligned(bv);                                            \
            for (size_t l = 0; l < X::size; ++l)                               \
            {                                                                  \
                const T s = av[l];                                             \
                const X b(bv[l]);                                              \
                X r = (EXPR);                                                  \
                rv[l] = r.get(l);                                              \
            }                                                                  \
            return X::load_unaligned(rv);                                      \
        }                                                                      \
    };
// the same for comparisons (result: a mask)
#define XV_SCALAR_CMP(NAME, EXPR, FROM_A) /* EXPR over batch x and scalar s */  \
    struct NAME                                                                \
    {                                                                          \
        template <class T, class X>                                            \
        static xs::batch_bool<T, arch> f(X const& a_, X const& b_, long)       \
        {                                                                      \
            T av[X::size], bv[X::size];                                        \
            bool rv[X::size];                                                  \
            a_.store_unaligned(av);                                            \
            b_.store_unaligned(bv);                                            \
            for (size_t l = 0; l < X::size; ++l)                               \
            {                                                                  \
                const T s = FROM_A ? av[l] : bv[l];                            \
                const X x(FROM_A ? bv[l] : av[l]);                             \
                xs::batch_bool<T, arch> r = (EXPR);                            \
                rv[l] = r.get(l);                                              \
            }                                                                  \
            return xs::batch_bool<T, arch>::load_unaligned(rv);                \
        }                                                                      \
    };

// f<T>(operands..., long param)
#define XV_OP1(NAME, EXPR)                                  \
    struct NAME                                             \
    {                                                       \
        template <class T, class X>                         \
        static auto f(X const& a, long p)                   \
        {                                                   \
            (void)p;                                        \
            return EXPR;                                    \
        }                                                   \
    };
#define XV_OP2(NAME, EXPR)                                  \
    struct NAME                                             \
    {                                                       \
        template <class T, class X, class Y>                \
        static auto f(X const& a, Y const& b, long p)       \
        {                                                   \
            (void)p;                                        \
            return EXPR;                                    \
        }                                                   \
    };
#define XV_OP3(NAME, EXPR)                                          \
    struct NAME                                                     \
    {                                                               \
        template <class T, class X, class Y, class Z>               \
        static auto f(X const& a, Y const& b, Z const& c, long p)   \
        {                                                           \
            (void)p;                                                \
            return EXPR;                                            \
        }                                                           \
    };

#define XV_MODULE(HARNESS)                                                          \
    extern "C" __attribute__((visibility("default"))) const xv_module* xv_get_module() \
    {                                                                               \
        static xv_module m;                                                         \
        static bool done = false;                                                   \
        if (!done)                                                                  \
        {                                                                           \
            xv::register_ops();                                                     \
            m.arch = XV_ARCH_NAME;                                                  \
            m.harness = HARNESS;                                                    \
            m.nops = (int)xv::registry().size();                                    \
            m.ops = xv::registry().data();                                          \
            done = true;                                                            \
        }                                                                           \
        return &m;                                                                  \
    }
