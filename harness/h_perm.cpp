// C05 (and the constant-mask part of C19): data movement.  Every compile-time mask of the generated
// families (build/gen/perm_masks.<tier>.h) is one template instantiation, reached through a function
// table indexed by the op parameter.  Which (operation, element type) pairs the library accepts on this
// architecture is decided by trial compilation (XV_FEATURE units).
#include "xv_harness.hpp"

#include <complex>

#include XV_PERM_MASKS

namespace xv
{
    template <class T>
    using UI = xs::as_unsigned_integer_t<T>;

    // ---- constant swizzle -------------------------------------------------------------------
    template <class T, unsigned... I>
    B<T> swz_one(B<T> const& x) { return xs::swizzle(x, xs::batch_constant<UI<T>, arch, (UI<T>)I...> {}); }
    template <class T, unsigned... I>
    B<T> shf_one(B<T> const& x, B<T> const& y) { return xs::shuffle(x, y, xs::batch_constant<UI<T>, arch, (UI<T>)I...> {}); }

    // complex batches: the same index map applied to the real and to the imaginary parts (floating-point T only)
    template <class T>
    using CBt = xs::batch<std::complex<T>, arch>;
    struct op_swz_dyn_cre
    {
        template <class T, class X, class Y>
        static X f(X const& a, Y const& idx, long) { return xs::swizzle(CBt<T>(a, xs::bitwise_not(a)), idx).real(); }
    };
    struct op_swz_dyn_cim
    {
        template <class T, class X, class Y>
        static X f(X const& a, Y const& idx, long) { return xs::swizzle(CBt<T>(xs::bitwise_not(a), a), idx).imag(); }
    };
    template <class T, unsigned... I>
    B<T> cswz_re(B<T> const& x) { return xs::swizzle(CBt<T>(x, xs::bitwise_not(x)), xs::batch_constant<UI<T>, arch, (UI<T>)I...> {}).real(); }
    template <class T, unsigned... I>
    B<T> cswz_im(B<T> const& x) { return xs::swizzle(CBt<T>(xs::bitwise_not(x), x), xs::batch_constant<UI<T>, arch, (UI<T>)I...> {}).imag(); }
    // every 5th mask of the family goes through the complex overload as well (the others fall back to the real one, which
    // computes the same index map: the judged result is the same either way)
    template <class T, long K, unsigned... I>
    constexpr B<T> (*cswz_pick())(B<T> const&)
    {
        if constexpr (K % 5 == 0)
            return (K % 10 == 0) ? &cswz_re<T, I...> : &cswz_im<T, I...>;
        else
            return &swz_one<T, I...>;
    }
    template <class T, size_t N>
    struct masks;
#define XV_SWZ_ENTRY(K, ...) &swz_one<T, __VA_ARGS__>,
#define XV_SHF_ENTRY(K, ...) &shf_one<T, __VA_ARGS__>,
#define XV_CSWZ_ENTRY(K, ...) cswz_pick<T, K, __VA_ARGS__>(),
#ifdef XV_PROBING
// acceptance probes instantiate a handful of masks per family only (every 37th); the real build has them all
#define XV_SWZ_LIST(N) XV_SWZP_##N
#define XV_SHF_LIST(N) XV_SHFP_##N
#else
#define XV_SWZ_LIST(N) XV_SWZ_##N
#define XV_SHF_LIST(N) XV_SHF_##N
#endif
#define XV_MASKS(N)                                                                   \
    template <class T>                                                                \
    struct masks<T, N>                                                                \
    {                                                                                 \
        typedef B<T> (*swz_fn)(B<T> const&);                                          \
        typedef B<T> (*shf_fn)(B<T> const&, B<T> const&);                             \
        static const swz_fn* swz()                                                    \
        {                                                                             \
            static const swz_fn t[] = { XV_SWZ_LIST(N)(XV_SWZ_ENTRY) };                  \
            return t;                                                                 \
        }                                                                             \
        static const swz_fn* cswz()                                                   \
        {                                                                             \
            static const swz_fn t[] = { XV_SWZ_LIST(N)(XV_CSWZ_ENTRY) };                 \
            return t;                                                                 \
        }                                                                             \
        static const shf_fn* shf()                                                    \
        {                                                                             \
            static const shf_fn t[] = { XV_SHF_LIST(N)(XV_SHF_ENTRY) };                  \
            return t;                                                                 \
        }                                                                             \
        static constexpr long nswz = XV_NSWZ_##N, nshf = XV_NSHF_##N;                 \
    };
    XV_MASKS(2)
    XV_MASKS(4)
    XV_MASKS(8)
    XV_MASKS(16)
    XV_MASKS(32)
    XV_MASKS(64)

    struct op_swz_const
    {
        template <class T, class X>
        static X f(X const& a, long p) { return masks<T, B<T>::size>::swz()[p % masks<T, B<T>::size>::nswz](a); }
    };
    struct op_cswz_const
    {
        template <class T, class X>
        static X f(X const& a, long p) { return masks<T, B<T>::size>::cswz()[p % masks<T, B<T>::size>::nswz](a); }
    };
    struct op_shf_const
    {
        template <class T, class X>
        static X f(X const& a, X const& b, long p) { return masks<T, B<T>::size>::shf()[p % masks<T, B<T>::size>::nshf](a, b); }
    };
    // ---- run-time index swizzle ---------------------------------------------------------------
    struct op_swz_dyn
    {
        template <class T, class X, class Y>
        static X f(X const& a, Y const& idx, long) { return xs::swizzle(a, idx); }
    };
    XV_OP2(op_zip_lo, xs::zip_lo(a, b))
    XV_OP2(op_zip_hi, xs::zip_hi(a, b))
    struct op_extract_pair
    {
        template <class T, class X>
        static X f(X const& a, X const& b, long p) { return xs::extract_pair(a, b, (std::size_t)p); }
    };
    XV_OP2(op_compress, xs::compress(a, b))
    XV_OP2(op_expand, xs::expand(a, b))

    // ---- template-count operations: slide (bytes), rotate (elements), insert (lane) ------------
    template <class T, size_t N>
    B<T> slide_l(B<T> const& x) { return xs::slide_left<N>(x); }
    template <class T, size_t N>
    B<T> slide_r(B<T> const& x) { return xs::slide_right<N>(x); }
    template <class T, size_t N>
    B<T> rot_l(B<T> const& x) { return xs::rotate_left<N>(x); }
    template <class T, size_t N>
    B<T> rot_r(B<T> const& x) { return xs::rotate_right<N>(x); }
    template <class T, size_t I>
    B<T> ins(B<T> const& x, T v) { return xs::insert(x, v, xs::index<I> {}); }

    template <class T, template <class, size_t> class F, size_t... N>
    const std::vector<B<T> (*)(B<T> const&)>& count_table(std::index_sequence<N...>)
    {
        static const std::vector<B<T> (*)(B<T> const&)> t = { &F<T, N>::call... };
        return t;
    }
    template <class T, size_t N>
    struct F_slide_l
    {
        static B<T> call(B<T> const& x) { return slide_l<T, N>(x); }
    };
    template <class T, size_t N>
    struct F_slide_r
    {
        static B<T> call(B<T> const& x) { return slide_r<T, N>(x); }
    };
    template <class T, size_t N>
    struct F_rot_l
    {
        static B<T> call(B<T> const& x) { return rot_l<T, N>(x); }
    };
    template <class T, size_t N>
    struct F_rot_r
    {
        static B<T> call(B<T> const& x) { return rot_r<T, N>(x); }
    };
    template <class T>
    constexpr size_t regbytes() { return B<T>::size * sizeof(T); }

    struct op_slide_left
    {
        template <class T, class X>
        static X f(X const& a, long p) { return count_table<T, F_slide_l>(std::make_index_sequence<regbytes<T>() + 1> {})[(size_t)p % (regbytes<T>() + 1)](a); }
    };
    struct op_slide_right
    {
        template <class T, class X>
        static X f(X const& a, long p) { return count_table<T, F_slide_r>(std::make_index_sequence<regbytes<T>() + 1> {})[(size_t)p % (regbytes<T>() + 1)](a); }
    };
    struct op_rotate_left
    {
        template <class T, class X>
        static X f(X const& a, long p) { return count_table<T, F_rot_l>(std::make_index_sequence<B<T>::size> {})[(size_t)p % B<T>::size](a); }
    };
    struct op_rotate_right
    {
        template <class T, class X>
        static X f(X const& a, long p) { return count_table<T, F_rot_r>(std::make_index_sequence<B<T>::size> {})[(size_t)p % B<T>::size](a); }
    };
    template <class T, size_t... I>
    B<T> insert_at(B<T> const& x, T v, size_t i, std::index_sequence<I...>)
    {
        typedef B<T> (*fn)(B<T> const&, T);
        static const fn t[] = { &ins<T, I>... };
        return t[i % sizeof...(I)](x, v);
    }
    // insert<I>(x, y[I]): the inserted value is lane I of the second operand
    struct op_insert
    {
        template <class T, class X>
        static X f(X const& a, X const& b, long p)
        {
            T buf[B<T>::size];
            b.store_unaligned(buf);
            size_t i = (size_t)p % B<T>::size;
            return insert_at<T>(a, buf[i], i, std::make_index_sequence<B<T>::size> {});
        }
    };
    // get: run-time index and index<I> forms must address the same lane numbering (observed as a broadcast of lane p)
    template <class T, size_t I>
    T get_c(B<T> const& v) { return xs::kernel::get(v, xs::index<I> {}, arch {}); }
    template <class T, size_t... I>
    T get_at(B<T> const& x, size_t i, std::index_sequence<I...>)
    {
        typedef T (*fn)(B<T> const&);
        static const fn t[] = { &get_c<T, I>... };
        return t[i % sizeof...(I)](x);
    }
    struct op_get
    {
        template <class T, class X>
        static X f(X const& a, long p) { return X(a.get((size_t)p % B<T>::size)); }
    };
    struct op_get_const
    {
        template <class T, class X>
        static X f(X const& a, long p) { return X(get_at<T>(a, (size_t)p, std::make_index_sequence<B<T>::size> {})); }
    };

    // transpose: groups of lanes*lanes elements = a square matrix of `lanes` batches, transposed in place
    template <class T>
    int run_transpose(const void* const* in, void* const* out, size_t n, xv_ctx*)
    {
        constexpr size_t L = B<T>::size;
        const T* p = (const T*)in[0];
        T* o = (T*)out[0];
        for (size_t g = 0; g + L * L <= n; g += L * L)
        {
            B<T> rows[L];
            for (size_t r = 0; r < L; ++r)
                rows[r] = B<T>::load_unaligned(p + g + r * L);
            xs::transpose(rows, rows + L);
            for (size_t r = 0; r < L; ++r)
                rows[r].store_unaligned(o + g + r * L);
        }
        return 0;
    }
    template <class T>
    void reg_transpose()
    {
        xv_op o;
        std::memset(&o, 0, sizeof o);
        o.prop = "C05";
        o.name = "transpose";
        o.elem = tcode<T>::value;
        o.nin = 1;
        o.in_t[0] = tcode<T>::value;
        o.nout = 1;
        o.out_t[0] = tcode<T>::value;
        o.lanes = (int)B<T>::size;
        o.fn = &run_transpose<T>;
        registry().push_back(o);
    }

    // ---- feature units (acceptance decided by trial compilation) ----
    XV_FEATURE(swz_const)
    template <class T>
    void feature_swz_const() { reg<op_swz_const, T, B<T>, B<T>>("C05", "swizzle.const"); }
    XV_FEATURE(swz_dyn)
    template <class T>
    void feature_swz_dyn() { reg<op_swz_dyn, T, B<T>, B<T>, B<UI<T>>>("C05", "swizzle.dyn"); }
    XV_FEATURE(swz_complex)
    template <class T>
    void feature_swz_complex()
    {
        if constexpr (std::is_floating_point<T>::value)
        {
            reg<op_cswz_const, T, B<T>, B<T>>("C05", "swizzle.const.complex");
            reg<op_swz_dyn_cre, T, B<T>, B<T>, B<UI<T>>>("C05", "swizzle.dyn.complex.re");
            reg<op_swz_dyn_cim, T, B<T>, B<T>, B<UI<T>>>("C05", "swizzle.dyn.complex.im");
        }
    }
    XV_FEATURE(shf_const)
    template <class T>
    void feature_shf_const() { reg<op_shf_const, T, B<T>, B<T>, B<T>>("C05", "shuffle.const"); }
    XV_FEATURE(zip)
    template <class T>
    void feature_zip()
    {
        reg<op_zip_lo, T, B<T>, B<T>, B<T>>("C05", "zip_lo");
        reg<op_zip_hi, T, B<T>, B<T>, B<T>>("C05", "zip_hi");
    }
    XV_FEATURE(slide_left)
    template <class T>
    void feature_slide_left() { reg<op_slide_left, T, B<T>, B<T>>("C05", "slide_left"); }
    XV_FEATURE(slide_right)
    template <class T>
    void feature_slide_right() { reg<op_slide_right, T, B<T>, B<T>>("C05", "slide_right"); }
    XV_FEATURE(rotate_left)
    template <class T>
    void feature_rotate_left() { reg<op_rotate_left, T, B<T>, B<T>>("C05", "rotate_left"); }
    XV_FEATURE(rotate_right)
    template <class T>
    void feature_rotate_right() { reg<op_rotate_right, T, B<T>, B<T>>("C05", "rotate_right"); }
    XV_FEATURE(extract_pair)
    template <class T>
    void feature_extract_pair() { reg<op_extract_pair, T, B<T>, B<T>, B<T>>("C05", "extract_pair"); }
    XV_FEATURE(insert)
    template <class T>
    void feature_insert()
    {
        reg<op_insert, T, B<T>, B<T>, B<T>>("C05", "insert");
        reg<op_get, T, B<T>, B<T>>("C05", "get");
        reg<op_get_const, T, B<T>, B<T>>("C05", "get.const");
    }
    XV_FEATURE(transpose)
    template <class T>
    void feature_transpose() { reg_transpose<T>(); }
    XV_FEATURE(compress)
    template <class T>
    void feature_compress() { reg<op_compress, T, B<T>, B<T>, BB<T>>("C05", "compress"); }
    XV_FEATURE(expand)
    template <class T>
    void feature_expand() { reg<op_expand, T, B<T>, B<T>, BB<T>>("C05", "expand"); }

    template <class... T>
    void reg_everything(types<T...>)
    {
        (maybe_swz_const<T>(), ...);
        (maybe_swz_dyn<T>(), ...);
        (maybe_swz_complex<T>(), ...);
        (maybe_shf_const<T>(), ...);
        (maybe_zip<T>(), ...);
        (maybe_slide_left<T>(), ...);
        (maybe_slide_right<T>(), ...);
        (maybe_rotate_left<T>(), ...);
        (maybe_rotate_right<T>(), ...);
        (maybe_extract_pair<T>(), ...);
        (maybe_insert<T>(), ...);
        (maybe_transpose<T>(), ...);
        (maybe_compress<T>(), ...);
        (maybe_expand<T>(), ...);
    }
    void register_ops() { reg_everything(all_types {}); }
}
XV_PROBE_INSTANTIATE
XV_MODULE("perm")
