// C01 (integer arithmetic) and C07 (bitwise / shift / rotate) kernels of one architecture.
#include "xv_harness.hpp"
#include "xv_twin.hpp"

namespace xv
{
    // ---- C01 ----
    XV_OP2(op_add, a + b)
    XV_OP2(op_add_fn, xs::add(a, b))
    XV_OP2(op_sub, a - b)
    XV_OP2(op_sub_fn, xs::sub(a, b))
    XV_OP2(op_mul, a* b)
    XV_OP2(op_mul_fn, xs::mul(a, b))
    XV_OP2(op_div, a / b)
    XV_OP2(op_div_fn, xs::div(a, b))
    XV_OP2(op_mod, a % b)
    XV_OP2(op_mod_fn, xs::mod(a, b))
    XV_OP1(op_neg, -a)
    XV_OP1(op_neg_fn, xs::neg(a))
    XV_OP1(op_abs, xs::abs(a))
    XV_OP2(op_min, xs::min(a, b))
    XV_OP2(op_max, xs::max(a, b))
    XV_OP1(op_incr, xs::incr(a))
    XV_OP1(op_decr, xs::decr(a))
    XV_OP2(op_incr_if, xs::incr_if(a, b))
    XV_OP2(op_decr_if, xs::decr_if(a, b))
    XV_OP3(op_fma, xs::fma(a, b, c))
    XV_OP3(op_fms, xs::fms(a, b, c))
    XV_OP3(op_fnma, xs::fnma(a, b, c))
    XV_OP3(op_fnms, xs::fnms(a, b, c))
    XV_OP1(op_sign, xs::sign(a))
    XV_OP2(op_sadd, xs::sadd(a, b))
    XV_OP2(op_ssub, xs::ssub(a, b))
    XV_OP2(op_avg, xs::avg(a, b))
    XV_OP2(op_avgr, xs::avgr(a, b))
    // compound assignment forms of the batch class
    struct op_add_assign
    {
        template <class T, class X>
        static X f(X a, X const& b, long) { a += b; return a; }
    };
    struct op_sub_assign
    {
        template <class T, class X>
        static X f(X a, X const& b, long) { a -= b; return a; }
    };
    struct op_mul_assign
    {
        template <class T, class X>
        static X f(X a, X const& b, long) { a *= b; return a; }
    };
#define XV_ASSIGN2(NAME, OPEQ)                                        \
    struct NAME                                                       \
    {                                                                 \
        template <class T, class X>                                   \
        static X f(X a, X const& b, long) { a OPEQ b; return a; }     \
    };
    XV_ASSIGN2(op_div_assign, /=)
    XV_ASSIGN2(op_mod_assign, %=)
    XV_ASSIGN2(op_and_assign, &=)
    XV_ASSIGN2(op_or_assign, |=)
    XV_ASSIGN2(op_xor_assign, ^=)
    XV_ASSIGN2(op_shl_v_assign, <<=)
    XV_ASSIGN2(op_shr_v_assign, >>=)
    struct op_shl_s_assign
    {
        template <class T, class X>
        static X f(X a, long p) { a <<= (int32_t)p; return a; }
    };
    struct op_shr_s_assign
    {
        template <class T, class X>
        static X f(X a, long p) { a >>= (int32_t)p; return a; }
    };
    struct op_predec
    {
        template <class T, class X>
        static X f(X a, long) { --a; return a; }
    };
    struct op_postinc
    {
        template <class T, class X>
        static X f(X a, long) { a++; return a; }
    };
    // the same object on both sides of an operator / in every argument slot
#define XV_SELF(NAME, STMT)                          \
    struct NAME                                      \
    {                                                \
        template <class T, class X>                  \
        static X f(X a, long) { STMT; return a; }    \
    };
    XV_SELF(op_selfadd, a += a)
    XV_SELF(op_selfsub, a -= a)
    XV_SELF(op_selfmul, a *= a)
    XV_SELF(op_selfmul_op, a = a * a)
    XV_SELF(op_selfand, a &= a)
    XV_SELF(op_selfor, a |= a)
    XV_SELF(op_selfxor, a ^= a)
    XV_SELF(op_selffma, a = xs::fma(a, a, a))
    XV_SELF(op_selfmin, a = xs::min(a, a))
    XV_SELF(op_selfsadd, a = xs::avg(a, a))
    struct op_preinc
    {
        template <class T, class X>
        static X f(X a, long) { ++a; return a; }
    };
    struct op_postdec
    {
        template <class T, class X>
        static X f(X a, long) { a--; return a; }
    };
    // batch (op) scalar: the scalar is broadcast by the front end
    struct op_add_scalar
    {
        template <class T, class X>
        static X f(X const& a, long p) { return a + (T)p; }
    };
    struct op_mul_scalar
    {
        template <class T, class X>
        static X f(X const& a, long p) { return (T)p * a; }
    };

    // scalar-operand spellings
    XV_SCALAR_RHS(op_add_rs, a + s)
    XV_SCALAR_LHS(op_add_ls, s + b)
    XV_SCALAR_RHS(op_sub_rs, a - s)
    XV_SCALAR_LHS(op_sub_ls, s - b)
    XV_SCALAR_RHS(op_mul_rs, a* s)
    XV_SCALAR_LHS(op_mul_ls, s* b)
    XV_SCALAR_RHS(op_div_rs, a / s)
    XV_SCALAR_LHS(op_div_ls, s / b)
    XV_SCALAR_RHS(op_mod_rs, a % s)
    XV_SCALAR_LHS(op_mod_ls, s % b)
    XV_SCALAR_RHS(op_and_rs, a& s)
    XV_SCALAR_LHS(op_and_ls, s& b)
    XV_SCALAR_RHS(op_or_rs, a | s)
    XV_SCALAR_LHS(op_or_ls, s | b)
    XV_SCALAR_RHS(op_xor_rs, a ^ s)
    XV_SCALAR_LHS(op_xor_ls, s ^ b)
    struct op_add_rsa
    {
        template <class T, class X>
        static X f(X const& a, X const& b, long)
        {
            T av[X::size], bv[X::size], rv[X::size];
            a.store_unaligned(av);
            b.store_unaligned(bv);
            for (size_t l = 0; l < X::size; ++l)
            {
                X r(av[l]);
                r += bv[l];
                rv[l] = r.get(l);
            }
            return X::load_unaligned(rv);
        }
    };
    struct op_mod_rsa
    {
        template <class T, class X>
        static X f(X const& a, X const& b, long)
        {
            T av[X::size], bv[X::size], rv[X::size];
            a.store_unaligned(av);
            b.store_unaligned(bv);
            for (size_t l = 0; l < X::size; ++l)
            {
                X r(av[l]);
                r %= bv[l];
                rv[l] = r.get(l);
            }
            return X::load_unaligned(rv);
        }
    };

    // ---- C07 ----
    XV_OP2(op_and, a& b)
    XV_OP2(op_or, a | b)
    XV_OP2(op_xor, a ^ b)
    XV_OP1(op_not, ~a)
    XV_OP2(op_andnot, xs::bitwise_andnot(a, b))
    XV_OP2(op_and_fn, xs::bitwise_and(a, b))
    XV_OP2(op_or_fn, xs::bitwise_or(a, b))
    XV_OP2(op_xor_fn, xs::bitwise_xor(a, b))
    XV_OP1(op_not_fn, xs::bitwise_not(a))
    XV_OP1(op_shl_s, a << (int)p)
    XV_OP1(op_shr_s, a >> (int)p)
    XV_OP1(op_lshift_s, xs::bitwise_lshift(a, (int)p))
    XV_OP1(op_rshift_s, xs::bitwise_rshift(a, (int)p))
    XV_OP2(op_shl_v, a << b)
    XV_OP2(op_shr_v, a >> b)
    XV_OP2(op_lshift_v, xs::bitwise_lshift(a, b))
    XV_OP2(op_rshift_v, xs::bitwise_rshift(a, b))
    XV_OP1(op_rotl_s, xs::rotl(a, (int)p))
    XV_OP1(op_rotr_s, xs::rotr(a, (int)p))
    XV_OP2(op_rotl_v, xs::rotl(a, b))
    XV_OP2(op_rotr_v, xs::rotr(a, b))

    void register_ops()
    {
        int_types it;
        reg_b<op_add>("C01", "add", it);
        reg_b<op_add_fn>("C01", "add.fn", it);
        reg_b<op_add_assign>("C01", "add.assign", it);
        reg_b<op_sub>("C01", "sub", it);
        reg_b<op_sub_fn>("C01", "sub.fn", it);
        reg_b<op_sub_assign>("C01", "sub.assign", it);
        reg_b<op_mul>("C01", "mul", it);
        reg_b<op_mul_fn>("C01", "mul.fn", it);
        reg_b<op_mul_assign>("C01", "mul.assign", it);
        reg_b<op_div>("C01", "div", it);
        reg_b<op_div_fn>("C01", "div.fn", it);
        reg_b<op_mod>("C01", "mod", it);
        reg_b<op_mod_fn>("C01", "mod.fn", it);
        reg_u<op_neg>("C01", "neg", it);
        reg_u<op_neg_fn>("C01", "neg.fn", it);
        reg_u<op_abs>("C01", "abs", it);
        reg_b<op_min>("C01", "min", it);
        reg_b<op_max>("C01", "max", it);
        reg_u<op_incr>("C01", "incr", it);
        reg_u<op_decr>("C01", "decr", it);
        reg_u<op_preinc>("C01", "incr.op", it);
        reg_u<op_selfadd>("C01", "selfadd", it);
        reg_u<op_selfmul>("C01", "selfmul", it);
        reg_u<op_selfmul_op>("C01", "selfmul.op", it);
        reg_u<op_selffma>("C01", "selffma", it);
        reg_u<op_selfmin>("C01", "selfid.min", it);
        reg_u<op_selfsadd>("C01", "selfid.avg", it);
        reg_u<op_selfand>("C07", "selfid.and", it);
        reg_u<op_selfor>("C07", "selfid.or", it);
        reg_u<op_postdec>("C01", "decr.op", it);
        reg_um<op_incr_if>("C01", "incr_if", it);
        reg_um<op_decr_if>("C01", "decr_if", it);
        reg_t<op_fma>("C01", "fma", it);
        reg_t<op_fms>("C01", "fms", it);
        reg_t<op_fnma>("C01", "fnma", it);
        reg_t<op_fnms>("C01", "fnms", it);
        reg_u<op_sign>("C01", "sign", it);
        reg_b<op_sadd>("C01", "sadd", it);
        reg_b<op_ssub>("C01", "ssub", it);
        reg_b<op_avg>("C01", "avg", it);
        reg_b<op_avgr>("C01", "avgr", it);
        reg_b<op_div_assign>("C01", "div.assign", it);
        reg_b<op_mod_assign>("C01", "mod.assign", it);
        reg_u<op_predec>("C01", "decr.preop", it);
        reg_u<op_postinc>("C01", "incr.postop", it);
        reg_b<op_add_rs>("C01", "add.rs", it);
        reg_b<op_add_ls>("C01", "add.ls", it);
        reg_b<op_add_rsa>("C01", "add.rsa", it);
        reg_b<op_sub_rs>("C01", "sub.rs", it);
        reg_b<op_sub_ls>("C01", "sub.ls", it);
        reg_b<op_mul_rs>("C01", "mul.rs", it);
        reg_b<op_mul_ls>("C01", "mul.ls", it);
        reg_b<op_div_rs>("C01", "div.rs", it);
        reg_b<op_div_ls>("C01", "div.ls", it);
        reg_b<op_mod_rs>("C01", "mod.rs", it);
        reg_b<op_mod_ls>("C01", "mod.ls", it);
        reg_b<op_mod_rsa>("C01", "mod.rsa", it);
        reg_u<op_add_scalar>("C01", "add.scalar", it);
        reg_u<op_mul_scalar>("C01", "mul.scalar", it);

        reg_b<op_and>("C07", "and", it);
        reg_b<op_or>("C07", "or", it);
        reg_b<op_xor>("C07", "xor", it);
        reg_u<op_not>("C07", "not", it);
        reg_b<op_andnot>("C07", "andnot", it);
        reg_b<op_and_fn>("C07", "and.fn", it);
        reg_b<op_or_fn>("C07", "or.fn", it);
        reg_b<op_xor_fn>("C07", "xor.fn", it);
        reg_u<op_not_fn>("C07", "not.fn", it);
        reg_u<op_shl_s>("C07", "shl.s", it);
        reg_u<op_shr_s>("C07", "shr.s", it);
        reg_u<op_lshift_s>("C07", "shl.s.fn", it);
        reg_u<op_rshift_s>("C07", "shr.s.fn", it);
        reg_b<op_shl_v>("C07", "shl.v", it);
        reg_b<op_shr_v>("C07", "shr.v", it);
        reg_b<op_lshift_v>("C07", "shl.v.fn", it);
        reg_b<op_rshift_v>("C07", "shr.v.fn", it);
        reg_b<op_and_rs>("C07", "and.rs", it);
        reg_b<op_and_ls>("C07", "and.ls", it);
        reg_b<op_or_rs>("C07", "or.rs", it);
        reg_b<op_or_ls>("C07", "or.ls", it);
        reg_b<op_xor_rs>("C07", "xor.rs", it);
        reg_b<op_xor_ls>("C07", "xor.ls", it);
        reg_b<op_and_assign>("C07", "and.assign", it);
        reg_b<op_or_assign>("C07", "or.assign", it);
        reg_b<op_xor_assign>("C07", "xor.assign", it);
        reg_u<op_shl_s_assign>("C07", "shl.s.assign", it);
        reg_u<op_shr_s_assign>("C07", "shr.s.assign", it);
        reg_b<op_shl_v_assign>("C07", "shl.v.assign", it);
        reg_b<op_shr_v_assign>("C07", "shr.v.assign", it);
        reg_u<op_rotl_s>("C07", "rotl.s", it);
        reg_u<op_rotr_s>("C07", "rotr.s", it);
        reg_b<op_rotl_v>("C07", "rotl.v", it);
        reg_b<op_rotr_v>("C07", "rotr.v", it);

        // twin element types (xv_twin.hpp): the operator and named spellings of every operation, without the spelling variants
        twin_types tt;
        reg_b<op_add>("C01", "add.twin", tt);
        reg_b<op_sub>("C01", "sub.twin", tt);
        reg_b<op_mul>("C01", "mul.twin", tt);
        reg_b<op_div>("C01", "div.twin", tt);
        reg_b<op_mod>("C01", "mod.twin", tt);
        reg_u<op_neg>("C01", "neg.twin", tt);
        reg_u<op_abs>("C01", "abs.twin", tt);
        reg_b<op_min>("C01", "min.twin", tt);
        reg_b<op_max>("C01", "max.twin", tt);
        reg_u<op_incr>("C01", "incr.twin", tt);
        reg_u<op_decr>("C01", "decr.twin", tt);
        reg_um<op_incr_if>("C01", "incr_if.twin", tt);
        reg_um<op_decr_if>("C01", "decr_if.twin", tt);
        reg_t<op_fma>("C01", "fma.twin", tt);
        reg_t<op_fnms>("C01", "fnms.twin", tt);
        reg_u<op_sign>("C01", "sign.twin", tt);
        reg_b<op_sadd>("C01", "sadd.twin", tt);
        reg_b<op_ssub>("C01", "ssub.twin", tt);
        reg_b<op_avg>("C01", "avg.twin", tt);
        reg_b<op_avgr>("C01", "avgr.twin", tt);
        reg_b<op_mod_rs>("C01", "mod.rs.twin", tt);
        reg_u<op_mul_scalar>("C01", "mul.scalar.twin", tt);
        reg_b<op_and>("C07", "and.twin", tt);
        reg_b<op_or>("C07", "or.twin", tt);
        reg_b<op_xor>("C07", "xor.twin", tt);
        reg_u<op_not>("C07", "not.twin", tt);
        reg_b<op_andnot>("C07", "andnot.twin", tt);
        reg_u<op_shl_s>("C07", "shl.s.twin", tt);
        reg_u<op_shr_s>("C07", "shr.s.twin", tt);
        reg_b<op_shl_v>("C07", "shl.v.twin", tt);
        reg_b<op_shr_v>("C07", "shr.v.twin", tt);
        reg_u<op_rotl_s>("C07", "rotl.s.twin", tt);
        reg_u<op_rotr_s>("C07", "rotr.s.twin", tt);
        reg_b<op_rotl_v>("C07", "rotl.v.twin", tt);
        reg_b<op_rotr_v>("C07", "rotr.v.twin", tt);
    }
}
XV_MODULE("int")
