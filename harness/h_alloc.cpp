// C18: aligned_allocator histories (exhaustive up to a length bound, with deviation-bounded fault
// injection through an interposed posix_memalign), size arithmetic, alignment predicates.
// Built as an AddressSanitizer executable (recover mode): a block that is too small, a double free or a
// corrupted neighbour shows up as a sanitizer report, which is counted as a violation of the current step.
#include <xsimd/xsimd.hpp>

#include <complex>
#include <cstdint>
#include <dlfcn.h>

#include <new>
#include <string>
#include <tuple>

#include "../engine/util.hpp"

namespace xv
{
    thread_local tick_state tk = { 0, ~0ul, {} };
}
using namespace xv;

// ---- environment owned by the explorer ----
static long g_fail_at[2] = { -1, -1 }; // indices (among posix_memalign calls of the current history) that fail
static long g_call = 0;
static unsigned long g_memalign_calls = 0;
static volatile int g_asan_errors = 0;
static bool g_record_only = false; // the request is recorded and refused (sizes too large to be served for real)
static size_t g_last_al = 0, g_last_sz = 0;
static unsigned long g_recorded = 0;
extern "C" int posix_memalign(void** p, size_t al, size_t sz)
{
    typedef int (*fn)(void**, size_t, size_t);
    static fn real = (fn)dlsym(RTLD_NEXT, "posix_memalign");
    ++g_memalign_calls;
    if (g_record_only)
    {
        g_last_al = al;
        g_last_sz = sz;
        ++g_recorded;
        return 12; // ENOMEM
    }
    long me = g_call++;
    if (me == g_fail_at[0] || me == g_fail_at[1])
        return 12; // ENOMEM
    return real(p, al, sz);
}
extern "C" void __asan_on_error() { ++g_asan_errors; }
extern "C" int __lsan_do_recoverable_leak_check();

struct S24
{
    char b[24];
};

struct Res
{
    uint64_t states = 0, transitions = 0, total = 0;
    std::vector<std::string> violations;
    std::map<std::string, uint64_t> by_key;
    uint64_t histories = 0, fault_histories = 0, size_cases = 0, pred_cases = 0;
};
static Res R;

static void violation(const std::string& op, const std::string& type, const std::string& what, const std::string& history)
{
    ++R.total;
    uint64_t& n = R.by_key[op + "|" + type + "|host|"];
    if (++n <= 3 && R.violations.size() < 100)
    {
        J j;
        j.obj();
        j.k("property").str("C18");
        j.k("op").str(op);
        j.k("arch").str("host");
        j.k("type").str(type);
        j.k("note").str(what);
        j.k("history").str(history);
        j.k("finding").str("");
        j.k("in").arr().earr();
        j.eobj();
        R.violations.push_back(j.s);
    }
}

// ---- histories ----
static const size_t NS[] = { 0, 1, 3, 16, 17, 4096 };
struct Live
{
    void* p;
    size_t n;
    unsigned char tag;
};

template <class T, size_t A>
struct Runner
{
    using Alloc = xsimd::aligned_allocator<T, A>;
    std::string tname;
    // ops: 0..5 = allocate(NS[i]); 6..8 = deallocate(k-th live block)
    void run_history(const std::vector<int>& ops, long f0, long f1)
    {
        Alloc al;
        std::vector<Live> live;
        g_call = 0;
        g_fail_at[0] = f0;
        g_fail_at[1] = f1;
        unsigned char next_tag = 1;
        auto hist = [&]()
        {
            std::string s = tname + ":";
            for (int o : ops)
                s += o < 6 ? " alloc(" + std::to_string(NS[o]) + ")" : " free(#" + std::to_string(o - 6) + ")";
            if (f0 >= 0)
                s += " failing posix_memalign calls: " + std::to_string(f0) + (f1 >= 0 ? "," + std::to_string(f1) : "");
            return s;
        };
        for (int o : ops)
        {
            ++R.transitions;
            const int before = g_asan_errors;
            if (o < 6)
            {
                const size_t n = NS[o];
                const long callidx = g_call;
                const bool must_fail = (callidx == f0 || callidx == f1);
                T* p = nullptr;
                bool threw = false;
                try
                {
                    p = al.allocate(n);
                }
                catch (const std::bad_alloc&)
                {
                    threw = true;
                }
                catch (...)
                {
                    violation("allocate", tname, "allocate threw something other than std::bad_alloc", hist());
                    threw = true;
                }
                if (must_fail)
                {
                    if (!threw)
                    {
                        violation("allocate", tname, "posix_memalign failed but allocate returned instead of throwing std::bad_alloc", hist());
                    }
                    continue; // model unchanged
                }
                if (threw)
                {
                    if (n != 0)
                        violation("allocate", tname, "allocate(" + std::to_string(n) + ") threw although the underlying allocation succeeded", hist());
                    continue;
                }
                if (p == nullptr)
                {
                    violation("allocate", tname, "allocate returned a null pointer without throwing", hist());
                    continue;
                }
                if (reinterpret_cast<uintptr_t>(p) % A)
                    violation("allocate", tname, "returned pointer is not a multiple of the alignment", hist());
                // no overlap with live blocks
                const char* lo = (const char*)p;
                const char* hi = lo + n * sizeof(T);
                for (auto& L : live)
                {
                    const char* l2 = (const char*)L.p;
                    const char* h2 = l2 + L.n * sizeof(T);
                    if (n && L.n && lo < h2 && l2 < hi)
                        violation("allocate", tname, "returned block overlaps a live block", hist());
                    if (p == L.p)
                        violation("allocate", tname, "returned pointer equals the pointer of a live block", hist());
                }
                // the whole block is writable (AddressSanitizer reports a too small block)
                memset((void*)p, next_tag, n * sizeof(T));
                live.push_back({ p, n, next_tag });
                ++next_tag;
            }
            else
            {
                size_t k = (size_t)(o - 6);
                if (k >= live.size())
                    continue; // not enabled in this state (the enumerator does not generate these)
                Live L = live[k];
                live.erase(live.begin() + (long)k);
                al.deallocate((T*)L.p, L.n);
            }
            // all live blocks keep their contents
            for (auto& L : live)
            {
                const unsigned char* b = (const unsigned char*)L.p;
                for (size_t i = 0; i < L.n * sizeof(T); ++i)
                    if (b[i] != L.tag)
                    {
                        violation("allocate", tname, "contents of a live block changed", hist());
                        break;
                    }
            }
            if (g_asan_errors != before)
                violation("heap", tname, "AddressSanitizer reported an error during this step", hist());
        }
        // release everything: each block exactly once
        const int before = g_asan_errors;
        for (auto& L : live)
            al.deallocate((T*)L.p, L.n);
        if (g_asan_errors != before)
            violation("heap", tname, "AddressSanitizer reported an error while releasing the remaining blocks", hist());
        g_fail_at[0] = g_fail_at[1] = -1;
    }

    void enumerate(std::vector<int>& ops, int nlive, int nalloc, int depth, int maxdepth, bool faults)
    {
        if (!ops.empty())
        {
            ++R.states;
            if (!faults)
            {
                ++R.histories;
                run_history(ops, -1, -1);
            }
            else
            {
                // every subset of <= 2 failing posix_memalign calls
                for (long a = 0; a < nalloc; ++a)
                {
                    ++R.fault_histories;
                    run_history(ops, a, -1);
                    for (long b = a + 1; b < nalloc; ++b)
                    {
                        ++R.fault_histories;
                        run_history(ops, a, b);
                    }
                }
            }
        }
        if (depth == maxdepth)
            return;
        for (int o = 0; o < 6; ++o)
        {
            if (nlive >= 3)
                break;
            ops.push_back(o);
            enumerate(ops, nlive + 1, nalloc + 1, depth + 1, maxdepth, faults);
            ops.pop_back();
        }
        for (int k = 0; k < nlive; ++k)
        {
            ops.push_back(6 + k);
            enumerate(ops, nlive - 1, nalloc, depth + 1, maxdepth, faults);
            ops.pop_back();
        }
    }

    void sizes()
    {
        Alloc al;
        std::vector<size_t> ns;
        for (size_t n = 0; n <= 64; ++n)
            ns.push_back(n);
        for (int k = 7; k < 40; ++k)
        {
            ns.push_back((size_t(1) << k) - 1);
            ns.push_back((size_t(1) << k) + 1);
        }
        // small enough to really allocate
        for (size_t n : ns)
        {
            ++R.size_cases;
            if (n * sizeof(T) > (size_t(1) << 26))
                continue;
            ++R.transitions;
            const int before = g_asan_errors;
            T* p = nullptr;
            try
            {
                p = al.allocate(n);
            }
            catch (const std::bad_alloc&)
            {
                if (n)
                    violation("allocate", tname, "allocate(" + std::to_string(n) + ") threw", "sizes");
                continue;
            }
            if (reinterpret_cast<uintptr_t>(p) % A)
                violation("allocate", tname, "pointer not aligned for n=" + std::to_string(n), "sizes");
            memset((void*)p, 0x5a, n * sizeof(T));
            al.deallocate(p, n);
            if (g_asan_errors != before)
                violation("heap", tname, "AddressSanitizer error for n=" + std::to_string(n), "sizes");
        }
        // n * sizeof(T) not representable (wraps modulo 2^64): must throw std::bad_alloc
        for (long d = -64; d <= 64; ++d)
        {
            // smallest n with n * sizeof(T) >= 2^64 + d (mod 2^64 it becomes about d)
            unsigned __int128 target = ((unsigned __int128)1 << 64) + (unsigned __int128)(d + 64 * 2);
            size_t n = (size_t)((target + sizeof(T) - 1) / sizeof(T));
            if ((unsigned __int128)n * sizeof(T) < ((unsigned __int128)1 << 64))
                continue;
            ++R.size_cases;
            ++R.transitions;
            bool threw = false;
            T* p = nullptr;
            try
            {
                p = al.allocate(n);
            }
            catch (const std::bad_alloc&)
            {
                threw = true;
            }
            if (!threw)
            {
                violation("allocate", tname, "allocate(" + std::to_string(n) + "): n * sizeof(T) is not representable in size_t, yet a block was returned (of " + std::to_string((size_t)(n * sizeof(T))) + " bytes)", "sizes");
                al.deallocate(p, n);
            }
        }
        // large representable requests, observed at the environment boundary: the interposed posix_memalign records what it
        // is asked for and refuses. The request must be for at least n * sizeof(T) bytes at an alignment that is a multiple
        // of A (a size that was truncated, wrapped or rounded down on the way is visible here without 4 GiB blocks), and
        // the refusal must surface as std::bad_alloc.
        {
            std::vector<size_t> big;
            for (int k = 27; k < 63; ++k)
                for (long d : { -1L, 0L, 1L, 5L })
                    big.push_back((((size_t)1 << k) + (size_t)d + sizeof(T) - 1) / sizeof(T));
            for (size_t k : { (size_t)0xFFFFFFFFu, (size_t)0x100000000ull, (size_t)0x100000040ull, (size_t)0x7FFFFFFFFFFFull, (size_t)0x123456789ABCull })
                big.push_back(k / sizeof(T) + 1);
            for (size_t n : big)
            {
                if ((unsigned __int128)n * sizeof(T) >> 63)
                    continue;
                ++R.size_cases;
                ++R.transitions;
                g_record_only = true;
                g_last_al = g_last_sz = 0;
                const unsigned long before = g_recorded;
                bool threw = false;
                T* p = nullptr;
                try
                {
                    p = al.allocate(n);
                }
                catch (const std::bad_alloc&)
                {
                    threw = true;
                }
                g_record_only = false;
                if (!threw)
                    violation("allocate", tname, "allocate(" + std::to_string(n) + "): the system refused the request but allocate returned " + (p ? "a pointer" : "null") + " instead of throwing std::bad_alloc", "sizes");
                else if (g_recorded == before + 1)
                {
                    if (g_last_sz < n * sizeof(T))
                        violation("allocate", tname, "allocate(" + std::to_string(n) + ") asked the system for " + std::to_string(g_last_sz) + " bytes, fewer than n * sizeof(T) = " + std::to_string(n * sizeof(T)), "sizes");
                    if (g_last_al == 0 || g_last_al % A)
                        violation("allocate", tname, "allocate(" + std::to_string(n) + ") asked the system for alignment " + std::to_string(g_last_al) + ", not a multiple of " + std::to_string(A), "sizes");
                }
            }
        }
        // near SIZE_MAX / sizeof(T) from below: representable but impossible, must throw
        for (size_t d = 0; d < 8; ++d)
        {
            size_t n = (size_t)-1 / sizeof(T) - d;
            ++R.size_cases;
            ++R.transitions;
            bool threw = false;
            T* p = nullptr;
            try
            {
                p = al.allocate(n);
            }
            catch (const std::bad_alloc&)
            {
                threw = true;
            }
            if (!threw)
            {
                violation("allocate", tname, "allocate(" + std::to_string(n) + ") near SIZE_MAX/sizeof(T) returned instead of throwing", "sizes");
                al.deallocate(p, n);
            }
        }
    }
};

template <class T, size_t A>
static void run_inst(const char* tn, int maxdepth, int faultdepth)
{
    Runner<T, A> r;
    r.tname = std::string("aligned_allocator<") + tn + "," + std::to_string(A) + ">";
    std::vector<int> ops;
    r.enumerate(ops, 0, 0, 0, maxdepth, false);
    r.enumerate(ops, 0, 0, 0, faultdepth, true);
    r.sizes();
    if (__lsan_do_recoverable_leak_check())
        violation("leak", r.tname, "LeakSanitizer found unreleased blocks after the histories of this instantiation", "all histories");
}

template <class T>
static void run_type(const char* tn, int maxdepth, int faultdepth)
{
    run_inst<T, 8>(tn, maxdepth, faultdepth);
    run_inst<T, 16>(tn, maxdepth, faultdepth);
    run_inst<T, 32>(tn, maxdepth, faultdepth);
    run_inst<T, 64>(tn, maxdepth, faultdepth);
    run_inst<T, 128>(tn, maxdepth, faultdepth);
    run_inst<T, 256>(tn, maxdepth, faultdepth);
    run_inst<T, 512>(tn, maxdepth, faultdepth);
    run_inst<T, 1024>(tn, maxdepth, faultdepth);
    run_inst<T, 2048>(tn, maxdepth, faultdepth);
    run_inst<T, 4096>(tn, maxdepth, faultdepth);
}

// ---- allocator equality: equal iff alignments are equal ----
template <size_t A1, size_t A2>
static void eq_pair()
{
    xsimd::aligned_allocator<float, A1> a;
    xsimd::aligned_allocator<double, A2> b;
    ++R.pred_cases;
    ++R.transitions;
    if ((a == b) != (A1 == A2) || (a != b) != (A1 != A2))
        violation("equality", "aligned_allocator", "operator== / != disagree with the alignments " + std::to_string(A1) + " vs " + std::to_string(A2), "equality");
}
template <size_t A1, size_t... A2>
static void eq_row(std::index_sequence<A2...>) { (eq_pair<A1, A2>(), ...); }
template <size_t... A1>
static void eq_all(std::index_sequence<A1...> s) { (eq_row<A1>(s), ...); }

// ---- is_aligned<A>(p) for every residue ----
template <class Arch>
static void is_aligned_arch(const char* name)
{
    const size_t al = Arch::alignment();
    if (al == 0 || (al & (al - 1)))
    {
        violation("is_aligned", name, "alignment() is not a power of two", "predicates");
        return;
    }
    for (uintptr_t base : { (uintptr_t)0x10000, (uintptr_t)0x7f0000001000ull })
        for (size_t r = 0; r < 2 * al; ++r)
        {
            ++R.pred_cases;
            ++R.transitions;
            uintptr_t p = base + r;
            bool got = xsimd::is_aligned<Arch>((void const*)p);
            if (got != (p % al == 0))
                violation("is_aligned", name, "is_aligned(" + std::to_string(p) + ") == " + std::to_string(got), "predicates");
        }
}

struct S8a2
{
    uint16_t v[4];
};
static_assert(sizeof(S8a2) == 8 && alignof(S8a2) == 2, "S8a2");

template <class T>
static void offsets(const char* tn)
{
    for (size_t block : { (size_t)1, (size_t)2, (size_t)4, (size_t)8, (size_t)16, (size_t)32, (size_t)64 })
        for (size_t res = 0; res < block * sizeof(T); ++res)
            for (size_t size = 0; size <= 2 * block; ++size)
            {
                // a pointer that is not a multiple of sizeof(T) is no valid T*; the library defines the answer
                // (size) only for blocks of more than one element, so a block of one is judged on valid pointers only
                if (block == 1 && res % sizeof(T))
                    continue;
                ++R.pred_cases;
                ++R.transitions;
                uintptr_t p = (uintptr_t)0x100000 + res;
                size_t got = xsimd::get_alignment_offset((const T*)p, size, block);
                // smallest k <= size with p + k elements aligned on block elements, else size
                size_t want = size;
                for (size_t k = 0; k <= size; ++k)
                    if ((p + k * sizeof(T)) % (block * sizeof(T)) == 0)
                    {
                        want = k;
                        break;
                    }
                if (got != want)
                    violation("get_alignment_offset", tn, "p residue " + std::to_string(res) + ", size " + std::to_string(size) + ", block " + std::to_string(block) + ": got " + std::to_string(got) + ", expected " + std::to_string(want), "predicates");
            }
}

int main(int argc, char** argv)
{
    std::string out = "alloc.json", tier = "quick";
    uint64_t seed = 0;
    for (int i = 1; i < argc; ++i)
    {
        std::string a = argv[i];
        if (a == "--out")
            out = argv[++i];
        else if (a == "--tier")
            tier = argv[++i];
        else if (a == "--seed")
            seed = strtoull(argv[++i], nullptr, 10);
    }
    int part = -1; // -1: everything; 0..3: one element type (0 also runs the predicates)
    for (int i = 1; i + 1 < argc; ++i)
        if (std::string(argv[i]) == "--part")
            part = atoi(argv[i + 1]);
    const int maxdepth = tier == "thorough" ? 6 : 5;
    const int faultdepth = tier == "thorough" ? 5 : 4;
    double t0 = now_s();
    if (part < 0 || part == 0)
        run_type<char>("char", maxdepth, faultdepth);
    if (part < 0 || part == 1)
        run_type<float>("float", maxdepth, faultdepth);
    if (part < 0 || part == 2)
        run_type<double>("double", maxdepth, faultdepth);
    if (part < 0 || part == 3)
        run_type<S24>("struct24", maxdepth, faultdepth);
    if (part <= 0)
    {
    eq_all(std::index_sequence<8, 16, 32, 64, 128, 256, 512, 1024, 2048, 4096> {});
    is_aligned_arch<xsimd::sse2>("sse2");
    is_aligned_arch<xsimd::sse4_2>("sse4_2");
    is_aligned_arch<xsimd::avx>("avx");
    is_aligned_arch<xsimd::avx2>("avx2");
    is_aligned_arch<xsimd::fma3<xsimd::avx2>>("fma3<avx2>");
    is_aligned_arch<xsimd::avx512f>("avx512f");
    is_aligned_arch<xsimd::avx512bw>("avx512bw");
    is_aligned_arch<xsimd::avx512vnni<xsimd::avx512vbmi2>>("avx512vnni<avx512vbmi2>");
    is_aligned_arch<xsimd::default_arch>("default_arch");
    offsets<uint8_t>("uint8");
    offsets<uint16_t>("uint16");
    offsets<float>("float");
    offsets<double>("double");
    // element types whose alignment is smaller than their size: a pointer can be a valid T* without being a
    // multiple of sizeof(T), and then no element of the array can ever be block-aligned
    offsets<int64_t>("int64");
    offsets<std::complex<float>>("complex<float>");
    offsets<std::complex<double>>("complex<double>");
    offsets<S8a2>("struct{uint16[4]}");
    // the default allocator satisfies aligned loads/stores of the default architecture
    {
        using B = xsimd::batch<float>;
        xsimd::default_allocator<float> da;
        for (size_t n : { (size_t)1, (size_t)B::size, (size_t)3 * B::size + 1 })
        {
            ++R.pred_cases;
            ++R.transitions;
            float* p = da.allocate(n + B::size);
            if (!xsimd::is_aligned<xsimd::default_arch>(p))
                violation("default_allocator", "float", "default_allocator memory is not aligned for default_arch", "predicates");
            else
            {
                for (size_t i = 0; i < B::size; ++i)
                    p[i] = (float)i;
                B v = B::load_aligned(p); // asserts the alignment contract
                v.store_aligned(p);
                if (p[B::size - 1] != (float)(B::size - 1))
                    violation("default_allocator", "float", "aligned round trip through default_allocator memory failed", "predicates");
            }
            da.deallocate(p, n + B::size);
        }
    }
    } // predicates
    J j;
    j.obj();
    j.k("property_id").str("C18");
    j.k("tier").str(tier);
    j.k("seed").u(seed);
    j.k("wall_s").num(now_s() - t0);
    j.k("states").u(R.states + R.size_cases + R.pred_cases);
    j.k("transitions").u(R.transitions);
    j.k("distinct_nontrivial").u(R.histories);
    j.k("exhaustive").b(true);
    j.k("histories").u(R.histories);
    j.k("histories_with_injected_faults").u(R.fault_histories);
    j.k("size_cases").u(R.size_cases);
    j.k("predicate_cases").u(R.pred_cases);
    j.k("posix_memalign_calls_intercepted").u(g_memalign_calls);
    j.k("architectures").arr().str("host (AddressSanitizer build)").earr();
    j.k("samples").arr();
    j.raw("{\"history\":\"aligned_allocator<float,64>: alloc(3) alloc(4096) free(#0) alloc(17) free(#1)\",\"checked_after_every_step\":\"alignment, no overlap, block fully writable, other live blocks intact, no sanitizer report\"}");
    j.raw("{\"history_with_fault\":\"aligned_allocator<double,4096>: alloc(16) alloc(1) free(#0) alloc(0), posix_memalign call 1 fails\",\"expected\":\"the second allocate throws std::bad_alloc and the model is unchanged\"}");
    j.raw("{\"size_case\":\"aligned_allocator<float,16>::allocate(4611686018427387906): n*sizeof(T) wraps to 8 bytes, must throw std::bad_alloc\"}");
    j.earr();
    j.k("notes").arr();
    j.str("all histories over {allocate(n), n in {0,1,3,16,17,4096}; deallocate(k-th live block)} of length <= " + std::to_string(maxdepth) + " with <= 3 live blocks, for T in {char,float,double,24-byte struct} x Align in {8..4096}");
    j.str("fault injection: every history of length <= " + std::to_string(faultdepth) + " x every subset of <= 2 failing posix_memalign calls (interposed)");
    j.earr();
    j.k("per_op").obj().eobj();
    j.k("vacuous_ops").arr().earr();
    j.k("saturated").arr().earr();
    j.k("violations_total").u(R.total);
    j.k("violations_unknown").u(R.total);
    j.k("by_finding").obj().eobj();
    j.k("by_key").obj();
    for (auto& kv : R.by_key)
        j.k(kv.first).u(kv.second);
    j.eobj();
    j.k("violations").arr();
    for (auto& v : R.violations)
        j.raw(v);
    j.earr();
    j.eobj();
    FILE* fp = fopen(out.c_str(), "w");
    fwrite(j.s.data(), 1, j.s.size(), fp);
    fclose(fp);
    fprintf(stderr, "[xvalloc] C18 %s: histories=%llu fault-histories=%llu size-cases=%llu predicate-cases=%llu violations=%llu wall=%.1fs\n", tier.c_str(), (unsigned long long)R.histories, (unsigned long long)R.fault_histories,
            (unsigned long long)R.size_cases, (unsigned long long)R.pred_cases, (unsigned long long)R.total, now_s() - t0);
    return 0;
}
