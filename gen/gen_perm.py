#!/usr/bin/env python3
"""Generates the compile-time mask programs for C05/C19: constant swizzle masks and constant shuffle masks
per lane count, as X-macro lists (one template instantiation each) plus the same index vectors as data for
the reference model.  Families are keyed to the pattern detectors and fast paths visible in the kernels."""
import sys


def splitmix(s):
    s = (s + 0x9E3779B97F4A7C15) & (2**64 - 1)
    z = s
    z = ((z ^ (z >> 30)) * 0xBF58476D1CE4E5B9) & (2**64 - 1)
    z = ((z ^ (z >> 27)) * 0x94D049BB133111EB) & (2**64 - 1)
    return s, z ^ (z >> 31)


def uniq(lists):
    seen, out = set(), []
    for l in lists:
        t = tuple(l)
        if t not in seen:
            seen.add(t)
            out.append(t)
    return out


def swizzle_masks(n, seed, nseed, thorough):
    M = []
    ident = list(range(n))
    if n == 2:
        return uniq([[a, b] for a in range(2) for b in range(2)])
    if n == 4:
        return uniq([[a, b, c, d] for a in range(4) for b in range(4) for c in range(4) for d in range(4)])
    M.append(ident)
    M.append(ident[::-1])
    for j in range(n):
        M.append([j] * n)                                   # broadcast lane j
    for k in range(1, n):
        M.append([(i + k) % n for i in range(n)])           # rotations
    M.append([i ^ 1 for i in range(n)])                     # swap adjacent
    M.append([(i + n // 2) % n for i in range(n)])          # swap halves
    M.append([i % (n // 2) for i in range(n)])              # duplicate low half
    M.append([n // 2 + i % (n // 2) for i in range(n)])     # duplicate high half
    M.append([(2 * i) % n for i in range(n)])               # evens
    M.append([(2 * i + 1) % n for i in range(n)])           # odds
    M.append([i // 2 for i in range(n)])                    # unpack low
    M.append([n // 2 + i // 2 for i in range(n)])           # unpack high
    M.append([(i // 2) + (n // 2) * (i % 2) for i in range(n)])  # interleave halves
    # in-128-bit-lane patterns replicated per lane (4 elements per group for the widest useful case)
    for g in (4, 8, 16):
        if g > n or g == n:
            continue
        pats = []
        s = seed * 31 + g
        pats.append(list(range(g))[::-1])
        pats.append([(i + 1) % g for i in range(g)])
        pats.append([0] * g)
        pats.append([g - 1] * g)
        pats.append([i ^ 1 for i in range(g)])
        pats.append([(i * 2) % g for i in range(g)])
        lim = 256 if (thorough and g == 4) else (24 if g == 4 else 6)
        if g == 4:
            allp = [[a, b, c, d] for a in range(4) for b in range(4) for c in range(4) for d in range(4)]
            step = max(1, len(allp) // lim)
            pats += allp[::step]
        for p in pats:
            M.append([(i // g) * g + p[i % g] for i in range(n)])           # same pattern in every group
            M.append([((i // g + 1) * g) % n + p[i % g] for i in range(n)])  # pattern taken from the next group (cross-lane only)
    # one deviation from identity (i -> j)
    dev_i = range(n) if n <= 16 else [0, 1, n // 2 - 1, n // 2, n - 1]
    dev_j = range(n) if (n <= 16 or thorough) else [0, 1, n // 4, n // 2 - 1, n // 2, n - 2, n - 1]
    for i in dev_i:
        for j in dev_j:
            if i != j:
                m = ident[:]
                m[i] = j
                M.append(m)
    # near misses of the regular patterns (what a fast-path detector with one wrong index variable / offset would still
    # accept): one lane of a regular base takes the value a neighbouring lane, the same lane of the next 4-group / 128-bit
    # group, or the adjacent element has in that base
    bases = [ident, ident[::-1], [i ^ 1 for i in range(n)], [(i + n // 2) % n for i in range(n)], [i // 2 for i in range(n)], [(2 * i) % n for i in range(n)]]
    for g in (2, 4, 8, 16):
        if g < n and (g > 2 or n <= 8):
            bases.append([(i // g) * g + (g - 1 - i % g) for i in range(n)])      # reverse inside every group
            bases.append([(i // g) * g + ((i + 1) % g) for i in range(n)])        # rotate inside every group
            bases.append([(i // g) * g + ((i % g) // 2) * 2 for i in range(n)])   # duplicate evens inside every group
    near_lanes = list(range(n)) if n <= 16 else sorted(set([0, 1, 5, n // 4 + 1, n // 2 - 1, n // 2, n // 2 + 5, n - 7, n - 2, n - 1]))
    for b in uniq(bases):
        for i in near_lanes:
            for v in (b[i - 1], b[(i + 1) % n], b[(i + 4) % n], b[i] ^ 1) + ((b[(i + 2) % n], b[i - 2]) if n <= 8 else ()):
                if v != b[i]:
                    m = list(b)
                    m[i] = v
                    M.append(m)
    s = seed * 977 + n
    for _ in range(nseed):
        m = []
        for i in range(n):
            s, r = splitmix(s)
            m.append(r % n)
        M.append(m)
    for _ in range(nseed // 2):                              # random permutations
        m = ident[:]
        for i in range(n - 1, 0, -1):
            s, r = splitmix(s)
            j = r % (i + 1)
            m[i], m[j] = m[j], m[i]
        M.append(m)
    return uniq(M)


def shuffle_masks(n, seed, nseed, thorough):
    M = []
    if n == 2:
        return uniq([[a, b] for a in range(4) for b in range(4)])
    if n == 4:
        # exhaustive for <= 4 lanes (the property's quantifier), in both tiers
        return uniq([[a, b, c, d] for a in range(8) for b in range(8) for c in range(8) for d in range(8)])
    x = list(range(n))
    y = list(range(n, 2 * n))
    M += [x, y, x[::-1], y[::-1]]                                            # is_swizzle_fst / snd
    M.append([(i // 2) + n * (i % 2) for i in range(n)])                     # zip_lo
    M.append([n // 2 + (i // 2) + n * (i % 2) for i in range(n)])            # zip_hi
    # interleaves of every stride/offset (what a zip detector may confuse with zip_lo / zip_hi)
    for stride in (1, 2):
        for off in (0, 1, n // 4, n // 2, n // 2 + 1):
            M.append([((off + stride * (i // 2)) % n) + n * (i % 2) for i in range(n)])
            M.append([((off + stride * (i // 2)) % n) + n * (1 - i % 2) for i in range(n)])
    M.append([i + n * (i % 2) for i in range(n)])                            # select (blend) alternating
    M.append([i + n * ((i // 2) % 2) for i in range(n)])
    M.append([i + (n if i >= n // 2 else 0) for i in range(n)])              # select halves
    M.append([i + (n if i < n // 2 else 0) for i in range(n)])
    for k in range(n):                                                       # one-hot selects
        M.append([i + (n if i == k else 0) for i in range(n)])
    # concatenation windows (extract_pair-like) and cross patterns
    for k in range(1, n):
        M.append([(i + k) for i in range(n)])
    # AVX in-lane _mm256_shuffle_ps/pd like patterns: low two of each 4 from x, high two from y (and opposite)
    if n >= 4:
        for a in range(4):
            for b in range(4):
                M.append([(i // 4) * 4 + ((a if i % 4 < 2 else b) + (i % 2)) % 4 + (n if (i % 4) >= 2 else 0) for i in range(n)])
                M.append([(i // 4) * 4 + ((a if i % 4 < 2 else b) + (i % 2)) % 4 + (0 if (i % 4) >= 2 else n) for i in range(n)])
    # _mm256/_mm512_shuffle_pd like patterns: in every group of two lanes the even lane comes from x and the odd lane from y
    # (and the opposite), each taking either element of the same group
    def pd(bits, swap):
        return [(i // 2) * 2 + ((bits >> i) & 1) + (n if (i % 2) != swap else 0) for i in range(n)]
    if n <= 8 and thorough:
        pd_bits = list(range(1 << n))
    else:
        full = (1 << n) - 1
        alt = sum(1 << i for i in range(0, n, 2))
        pd_bits = [0, full, alt, full ^ alt, (1 << (n // 2)) - 1, full ^ ((1 << (n // 2)) - 1)] + [1 << i for i in range(n)] + [full ^ (1 << i) for i in range(n)]
    pd_first = len(M)
    for bits in (pd_bits if n <= 8 else pd_bits[:6]):
        M.append(pd(bits, 0))
        M.append(pd(bits, 1))
    pd_bases = M[pd_first:pd_first + 8] if n <= 8 else []  # shuffle_pd exists for 2, 4 and 8 lanes only
    # one-index perturbations of the detector patterns
    base = M[:10]
    for b in base:
        for i in ([0, 1, n // 2, n - 1] if n > 4 else range(n)):
            for d in (1, n, n + 1):
                m = list(b)
                m[i] = (m[i] + d) % (2 * n)
                M.append(m)
    # near misses of the in-lane fast-path patterns and of the zip / select detectors (see swizzle_masks): one lane takes
    # the value of a neighbouring lane, of the same lane in the next 4-group, the adjacent element, or the other operand
    if n >= 8:
        bases = [M[4], M[5], x, y] + pd_bases
        for (a, b) in ((0, 0), (1, 3), (2, 1), (3, 2)):
            bases.append([(i // 4) * 4 + ((a if i % 4 < 2 else b) + (i % 2)) % 4 + (n if (i % 4) >= 2 else 0) for i in range(n)])
            bases.append([(i // 4) * 4 + ((a if i % 4 < 2 else b) + (i % 2)) % 4 + (0 if (i % 4) >= 2 else n) for i in range(n)])
        near_lanes = list(range(n)) if n <= 16 else sorted(set([0, 1, 5, n // 4 + 1, n // 2 - 1, n // 2, n // 2 + 5, n - 7, n - 2, n - 1]))
        for b in uniq(bases):
            for i in near_lanes:
                for v in (b[i - 1], b[(i + 1) % n], b[(i + 4) % n], b[i] ^ 1, (b[i] + n) % (2 * n)) + ((b[(i + 2) % n], b[i - 2]) if n <= 8 else ()):
                    if v != b[i]:
                        m = list(b)
                        m[i] = v
                        M.append(m)
    s = seed * 7 + 1000 + n
    for _ in range(nseed):
        m = []
        for i in range(n):
            s, r = splitmix(s)
            m.append(r % (2 * n))
        M.append(m)
    return uniq(M)


def emit(name, n, masks):
    print("#define XV_%s_%d(X) \\" % (name, n))
    for k, m in enumerate(masks):
        print("    X(%d, %s) \\" % (k, ", ".join(str(i) for i in m)))
    print("")
    print("#define XV_N%s_%d %d" % (name, n, len(masks)))
    # sparse family for the acceptance probes (trial compilation)
    print("#define XV_%sP_%d(X) \\" % (name, n))
    for k, m in enumerate(masks):
        if k % 37 == 0:
            print("    X(%d, %s) \\" % (k, ", ".join(str(i) for i in m)))
    print("")
    print("#ifdef XV_PERM_DATA")
    print("static const unsigned char xv_%s_%d[][%d] = {" % (name.lower(), n, n))
    for m in masks:
        print("    { %s }," % ", ".join(str(i) for i in m))
    print("};")
    print("#endif")


def main():
    seed = int(sys.argv[1]) if len(sys.argv) > 1 else 0
    thorough = len(sys.argv) > 2 and sys.argv[2] == "thorough"
    data = len(sys.argv) > 3 and sys.argv[3] == "data"
    nseed = 32 if thorough else 8
    if data:
        # the same index vectors as plain data for the reference model: "<family> <lanes> <k> i0 i1 ..."
        for n in (2, 4, 8, 16, 32, 64):
            for k, m in enumerate(swizzle_masks(n, seed, nseed, thorough)):
                print("SWZ %d %d %s" % (n, k, " ".join(str(i) for i in m)))
            for k, m in enumerate(shuffle_masks(n, seed, nseed, thorough)):
                print("SHF %d %d %s" % (n, k, " ".join(str(i) for i in m)))
        return
    print("// generated by gen/gen_perm.py seed=%d tier=%s" % (seed, "thorough" if thorough else "quick"))
    for n in (2, 4, 8, 16, 32, 64):
        emit("SWZ", n, swizzle_masks(n, seed, nseed, thorough))
        emit("SHF", n, shuffle_masks(n, seed, nseed, thorough))


if __name__ == "__main__":
    main()
