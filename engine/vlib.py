"""Build matrix, cache, known-findings and evidence plumbing shared by every check (python3, stdlib only)."""
import fcntl
import hashlib
import json
import os
import re
import shlex
import subprocess
import sys
import time
from concurrent.futures import ThreadPoolExecutor

VERIF = os.path.dirname(os.path.dirname(os.path.abspath(__file__)))
REPO = os.environ.get("XV_REPO", "/repo")
# where evidence/ and replays/ are written: /verif, unless a seed test (bin/seedtest) redirects them
RESULT_ROOT = os.environ.get("XV_OUT") or os.path.dirname(os.path.dirname(os.path.abspath(__file__)))
BUILD = os.environ.get("XV_BUILD", os.path.join(VERIF, "build"))
OBJ = os.path.join(BUILD, "obj")
OUT = os.path.join(BUILD, "out")
CXX = os.environ.get("XV_CXX", "/usr/bin/c++")
NPROC = int(os.environ.get("XV_JOBS", "16"))

AVX512_CHAIN = ["f", "cd", "dq", "bw", "ifma", "vbmi", "vbmi2"]


def _avx512(upto, extra=()):
    i = AVX512_CHAIN.index(upto)
    return " ".join("-mavx512" + x for x in AVX512_CHAIN[: i + 1] + list(extra))


# name, xsimd tag, machine flags (exactly what a user of that ISA compiles with), /proc/cpuinfo flags needed to run it
ARCHS = [
    ("sse2", "xsimd::sse2", "-msse2", ["sse2"]),
    ("sse3", "xsimd::sse3", "-msse3", ["pni"]),
    ("ssse3", "xsimd::ssse3", "-mssse3", ["ssse3"]),
    ("sse4_1", "xsimd::sse4_1", "-msse4.1", ["sse4_1"]),
    ("sse4_2", "xsimd::sse4_2", "-msse4.2", ["sse4_2"]),
    ("fma3_sse4_2", "xsimd::fma3<xsimd::sse4_2>", "-msse4.2 -mfma", ["sse4_2", "fma"]),
    ("avx", "xsimd::avx", "-mavx", ["avx"]),
    ("fma3_avx", "xsimd::fma3<xsimd::avx>", "-mavx -mfma", ["avx", "fma"]),
    ("avx2", "xsimd::avx2", "-mavx2", ["avx2"]),
    ("fma3_avx2", "xsimd::fma3<xsimd::avx2>", "-mavx2 -mfma", ["avx2", "fma"]),
    ("avxvnni", "xsimd::avxvnni", "-mavx2 -mavxvnni", ["avx2", "avx_vnni"]),
    ("avx512f", "xsimd::avx512f", _avx512("f"), ["avx512f"]),
    ("avx512cd", "xsimd::avx512cd", _avx512("cd"), ["avx512f", "avx512cd"]),
    ("avx512dq", "xsimd::avx512dq", _avx512("dq"), ["avx512f", "avx512cd", "avx512dq"]),
    ("avx512bw", "xsimd::avx512bw", _avx512("bw"), ["avx512f", "avx512cd", "avx512dq", "avx512bw"]),
    ("avx512vnni_avx512bw", "xsimd::avx512vnni<xsimd::avx512bw>", _avx512("bw", ["vnni"]), ["avx512bw", "avx512_vnni"]),
    ("avx512ifma", "xsimd::avx512ifma", _avx512("ifma"), ["avx512bw", "avx512ifma"]),
    ("avx512vbmi", "xsimd::avx512vbmi", _avx512("vbmi"), ["avx512ifma", "avx512vbmi"]),
    ("avx512vbmi2", "xsimd::avx512vbmi2", _avx512("vbmi2"), ["avx512vbmi", "avx512_vbmi2"]),
    ("avx512vnni_avx512vbmi2", "xsimd::avx512vnni<xsimd::avx512vbmi2>", _avx512("vbmi2", ["vnni"]), ["avx512_vbmi2", "avx512_vnni"]),
    ("emulated128", "xsimd::emulated<128>", "-msse2 -DXSIMD_WITH_EMULATED=1", ["sse2"]),
    ("emulated256", "xsimd::emulated<256>", "-msse2 -DXSIMD_WITH_EMULATED=1", ["sse2"]),
]
# compile-only architectures (the host cannot execute them)
ARCHS_COMPILE_ONLY = [
    ("fma4", "xsimd::fma4", "-mavx -mfma4", ["fma4"]),
    ("avx512er", "xsimd::avx512er", _avx512("cd", ["er"]), ["avx512er"]),
    ("avx512pf", "xsimd::avx512pf", _avx512("cd", ["er", "pf"]), ["avx512pf"]),
]
# cross-target architectures: no cross sysroot, no emulator -> clang -fsyntax-only against the host's libstdc++ headers plus
# the shims of /verif/shim (see shim/README); only compile-time obligations (C20) are decided for them.
_XSYS = ["-nostdinc++", "-isystem", "/usr/include/c++/12", "-isystem", "/usr/include/x86_64-linux-gnu/c++/12", "-isystem", "/usr/include/x86_64-linux-gnu"]
ARCHS_CROSS = [
    ("neon", "xsimd::neon", "--target=armv7a-linux-gnueabihf -mfpu=neon -mfloat-abi=hard", "arm32"),
    ("neon64", "xsimd::neon64", "--target=aarch64-linux-gnu", "aarch64"),
    ("i8mm_neon64", "xsimd::i8mm<xsimd::neon64>", "--target=aarch64-linux-gnu -march=armv8.6-a+i8mm", "aarch64"),
    ("sve128", "xsimd::sve", "--target=aarch64-linux-gnu -march=armv8-a+sve -msve-vector-bits=128", "aarch64"),
    ("sve256", "xsimd::sve", "--target=aarch64-linux-gnu -march=armv8-a+sve -msve-vector-bits=256", "aarch64"),
    ("sve512", "xsimd::sve", "--target=aarch64-linux-gnu -march=armv8-a+sve -msve-vector-bits=512", "aarch64"),
    ("wasm", "xsimd::wasm", "--target=wasm32-unknown-emscripten -msimd128", "wasm32"),
]
ARCH_BY_NAME = {a[0]: a for a in ARCHS + ARCHS_COMPILE_ONLY}


def cross_cmd(arch, src):
    """argv of the syntax-only compile of `src` for a cross-target architecture, or None when clang++ is missing."""
    import shutil
    clang = shutil.which("clang++") or shutil.which("clang++-14")
    if not clang:
        return None
    name, tag, flags, shim = next(a for a in ARCHS_CROSS if a[0] == arch)
    return [sys.executable, os.path.join(VERIF, "engine", "syntax_only.py"), clang, "-std=c++17"] + flags.split() + \
        ["-isystem", os.path.join(VERIF, "shim", shim)] + _XSYS + ["-I" + os.path.join(REPO, "include"), src]


def cpu_flags():
    with open("/proc/cpuinfo") as f:
        for line in f:
            if line.startswith("flags"):
                return set(line.split(":", 1)[1].split())
    return set()


def runnable_archs(names=None):
    fl = cpu_flags()
    run, skipped = [], []
    for a in ARCHS:
        if names and a[0] not in names:
            continue
        (run if all(x in fl for x in a[3]) else skipped).append(a[0])
    only = os.environ.get("XV_ARCHS")
    if only:
        keep = set(only.split(","))
        run = [a for a in run if a in keep]
    return run, skipped


_hash_cache = {}


def file_hash(path):
    try:
        st = os.stat(path)
    except OSError:
        return None
    key = (path, st.st_mtime_ns, st.st_size)
    h = _hash_cache.get(key)
    if h is None:
        with open(path, "rb") as f:
            h = hashlib.sha1(f.read()).hexdigest()
        _hash_cache[key] = h
    return h


def _parse_depfile(path):
    try:
        txt = open(path).read()
    except OSError:
        return None
    txt = txt.replace("\\\n", " ")
    deps = []
    for line in txt.splitlines():
        if ":" in line:
            deps += line.split(":", 1)[1].split()
    return [d for d in deps if not d.startswith("/usr/")]


def build_object(target, cmd_argv, srcs):
    """Make-like: rebuild `target` with cmd_argv (+ -MMD) when the command or any dependency's content changed.
    Returns (ok, log)."""
    os.makedirs(os.path.dirname(target), exist_ok=True)
    stamp = target + ".stamp"
    dep = target + ".d"
    cmdline = " ".join(shlex.quote(x) for x in cmd_argv)
    with open(target + ".lock", "w") as lk:
        fcntl.flock(lk, fcntl.LOCK_EX)
        try:
            st = json.load(open(stamp))
        except Exception:
            st = None
        if st and st.get("cmd") == cmdline and os.path.exists(target):
            if all(file_hash(p) == h for p, h in st["deps"].items()):
                return True, ""
        tmp = target + ".tmp%d" % os.getpid()
        argv = cmd_argv + ["-MMD", "-MF", dep, "-o", tmp]
        p = subprocess.run(argv, stdout=subprocess.PIPE, stderr=subprocess.STDOUT, text=True)
        if p.returncode != 0:
            try:
                os.unlink(tmp)
            except OSError:
                pass
            try:
                os.unlink(stamp)
            except OSError:
                pass
            return False, p.stdout
        os.replace(tmp, target)
        deps = _parse_depfile(dep) or list(srcs)
        json.dump({"cmd": cmdline, "deps": {d: file_hash(d) for d in deps}}, open(stamp, "w"))
        return True, p.stdout


def harness_cmd(arch, src, extra_flags=(), opt="-O2", cxx=None, shared=True):
    name, tag, flags, _ = ARCH_BY_NAME[arch]
    argv = [cxx or CXX, "-std=c++17", opt]
    if shared:
        argv += ["-fPIC", "-shared", "-fvisibility=hidden"]
    argv += ["-I" + os.path.join(REPO, "include"), "-I" + os.path.join(VERIF, "engine"), "-I" + os.path.join(VERIF, "harness"),
             "-DXSIMD_VERIF", '-DXSIMD_VERIF_HOOKS_HEADER="%s"' % os.path.join(VERIF, "harness", "xv_hooks.hpp"),
             "-DXV_ARCH=" + tag, '-DXV_ARCH_NAME="%s"' % name]
    argv += flags.split() + list(extra_flags) + [src]
    return argv


def build_modules(harness, archs, extra_flags=(), src=None, suffix=""):
    """Build harness/h_<harness>.cpp for every architecture in parallel. Returns ({arch: path}, {arch: error log})."""
    src = src or os.path.join(VERIF, "harness", "h_%s.cpp" % harness)
    res, errs = {}, {}

    def one(arch):
        target = os.path.join(OBJ, "%s.%s%s.so" % (arch, harness, suffix))
        ok, log = build_object(target, harness_cmd(arch, src, extra_flags), [src])
        return arch, target, ok, log

    with ThreadPoolExecutor(max_workers=NPROC) as ex:
        for arch, target, ok, log in ex.map(one, archs):
            if ok:
                res[arch] = target
            else:
                errs[arch] = log
    return res, errs


TYPE_CODES = ["int8_t", "uint8_t", "int16_t", "uint16_t", "int32_t", "uint32_t", "int64_t", "uint64_t", "float", "double"]


def harness_features(src):
    return re.findall(r"^\s*XV_FEATURE\((\w+)\)", open(src).read(), re.M)


_tree_hash_memo = []


def _tree_hash():
    if _tree_hash_memo:
        return _tree_hash_memo[0]
    _tree_hash_memo.append(_tree_hash_compute())
    return _tree_hash_memo[0]


def _tree_hash_compute():
    h = hashlib.sha1()
    for root in (os.path.join(REPO, "include"), os.path.join(VERIF, "harness"), os.path.join(VERIF, "engine")):
        for d, _, files in sorted(os.walk(root)):
            for f in sorted(files):
                if f.endswith((".hpp", ".h", ".cpp")):
                    p = os.path.join(d, f)
                    h.update(p.encode())
                    h.update((file_hash(p) or "").encode())
    return h.hexdigest()


def probe_compile(key, argv):
    """Trial compilation (-fsyntax-only) with a cached verdict. Returns True when it compiles."""
    d = os.path.join(OBJ, "probe")
    os.makedirs(d, exist_ok=True)
    stamp = os.path.join(d, key + ".json")
    dep = os.path.join(d, key + ".d")
    cmdline = " ".join(shlex.quote(x) for x in argv)
    try:
        st = json.load(open(stamp))
    except Exception:
        st = None
    if st and st.get("cmd") == cmdline:
        if st.get("deps") is not None:
            if all(file_hash(p) == h for p, h in st["deps"].items()):
                return st["ok"]
        elif st.get("tree") == _tree_hash():
            return st["ok"]
    p = subprocess.run(argv + ["-fsyntax-only", "-MMD", "-MF", dep], stdout=subprocess.DEVNULL, stderr=subprocess.DEVNULL)
    ok = p.returncode == 0
    rec = {"cmd": cmdline, "ok": ok}
    deps = _parse_depfile(dep) if ok else None
    if deps:
        rec["deps"] = {x: file_hash(x) for x in deps}
    else:
        rec["deps"] = None
        rec["tree"] = _tree_hash()
    json.dump(rec, open(stamp, "w"))
    return ok


def build_modules_probed(harness, archs, extra_flags=()):
    """Like build_modules, for harnesses whose XV_FEATURE(name) units are accepted by the library only for some
    (architecture, element type) combinations: acceptance is decided by trial compilation.
    Returns ({arch: path}, {arch: log}, {arch: {feature: [types not accepted]}})."""
    src = os.path.join(VERIF, "harness", "h_%s.cpp" % harness)
    feats = harness_features(src)
    extra_flags = list(extra_flags)

    def flags_for(masks):
        return ["-DXV_OFF_%s=%d" % (f, masks.get(f, 0)) for f in feats]

    def target_of(arch):
        return os.path.join(OBJ, "%s.%s.so" % (arch, harness))

    def load_masks(arch):
        try:
            return json.load(open(target_of(arch) + ".masks.json"))
        except Exception:
            return {}

    def full_build(arch, masks):
        return build_object(target_of(arch), harness_cmd(arch, src, extra_flags + flags_for(masks)), [src])

    def probe(arch, f, tn):
        base = harness_cmd(arch, src, extra_flags + ["-DXV_PROBING", "-DXV_PROBE_FEATURE=" + f], shared=False)
        others = ["-DXV_OFF_%s=1023" % g for g in feats]
        sel = ["-DXV_PROBE_ALL_TYPES"] if tn is None else ["-DXV_PROBE_TYPE=" + tn]
        return probe_compile("%s.%s.%s.%s" % (arch, harness, f, tn or "all"), base + others + sel)

    res, errs, masks_of = {}, {}, {}
    with ThreadPoolExecutor(max_workers=NPROC) as ex:
        # A. the previously accepted set (or everything), if it still builds and every rejection still holds
        def phase_a(arch):
            masks = load_masks(arch)
            ok, log = full_build(arch, masks)
            if ok and masks:
                for f, m in masks.items():
                    for code, tn in enumerate(TYPE_CODES):
                        if m >> code & 1 and probe(arch, f, tn):
                            return arch, False, masks, "a rejected unit compiles now"
            return arch, ok, masks, log
        todo = []
        for arch, ok, masks, log in ex.map(phase_a, archs):
            if ok:
                res[arch] = target_of(arch)
                masks_of[arch] = masks
            else:
                todo.append(arch)
        if todo:
            # B. every feature with all types at once
            pairs = [(a, f) for a in todo for f in feats]
            allok = dict(zip(pairs, ex.map(lambda p: probe(p[0], p[1], None), pairs)))
            # C. type by type where that failed
            triples = [(a, f, tn) for (a, f) in pairs if not allok[(a, f)] for tn in TYPE_CODES]
            tok = dict(zip(triples, ex.map(lambda t: probe(*t), triples)))
            for a in todo:
                m = {}
                for f in feats:
                    if allok[(a, f)]:
                        continue
                    bits = 0
                    for code, tn in enumerate(TYPE_CODES):
                        if not tok[(a, f, tn)]:
                            bits |= 1 << code
                    m[f] = bits
                masks_of[a] = m
            # D. the real objects
            for arch, (ok, log) in zip(todo, ex.map(lambda a: full_build(a, masks_of[a]), todo)):
                if ok:
                    res[arch] = target_of(arch)
                    json.dump(masks_of[arch], open(target_of(arch) + ".masks.json", "w"))
                else:
                    errs[arch] = log
    rejected = {a: {f: [TYPE_CODES[c] for c in range(10) if m >> c & 1] for f, m in masks_of.get(a, {}).items() if m} for a in res}
    return res, errs, rejected


def build_driver(name="xvdrive", libs=("-ldl", "-lpthread", "-rdynamic"), extra=()):
    src = os.path.join(VERIF, "engine", name + ".cpp")
    target = os.path.join(OBJ, name)
    # strict IEEE reference semantics: SSE2 scalar arithmetic, no contraction, no fast-math
    argv = [CXX, "-std=c++17", "-O2", "-msse2", "-mfpmath=sse", "-ffp-contract=off", "-fno-fast-math",
            "-I" + os.path.join(VERIF, "engine"), src] + list(extra) + list(libs)
    ok, log = build_object(target, argv, [src])
    if not ok:
        sys.stderr.write(log)
        sys.stderr.write("\n[vcheck] building the explorer %s failed\n" % name)
        sys.exit(2)
    return target


def build_exe(name, src, flags=(), libs=(), opt="-O1"):
    """Stand-alone explorer executable that includes xsimd itself (C15, C18, C20 ...)."""
    target = os.path.join(OBJ, name)
    argv = [CXX, "-std=c++17", opt, "-I" + os.path.join(REPO, "include"), "-I" + os.path.join(VERIF, "engine"), "-I" + os.path.join(VERIF, "harness"),
            "-DXSIMD_VERIF", '-DXSIMD_VERIF_HOOKS_HEADER="%s"' % os.path.join(VERIF, "harness", "xv_hooks.hpp")] + list(flags) + [src] + list(libs)
    return target, build_object(target, argv, [src])


def write_if_changed(path, text):
    os.makedirs(os.path.dirname(path), exist_ok=True)
    try:
        if open(path).read() == text:
            return
    except OSError:
        pass
    with open(path, "w") as f:
        f.write(text)


# ------------------------------------------------------------------------------------------------
def load_known():
    p = os.path.join(VERIF, "known_findings.json")
    try:
        return json.load(open(p))
    except FileNotFoundError:
        return {"findings": [], "fixed": []}


def open_findings(prop):
    return [f for f in load_known().get("findings", []) if prop in f.get("properties", [f.get("property")]) and f.get("status", "open") == "open"]


def write_evidence(prop, tier, seed, wall, coverage, violations, assumptions):
    ev = {
        "property_id": prop,
        "tier": tier,
        "seed": int(seed),
        "level": "model_checking",
        "coverage": coverage,
        "assumptions": assumptions,
        "wall_s": round(float(wall), 3),
        "violations": int(violations),
    }
    os.makedirs(os.path.join(RESULT_ROOT, "evidence"), exist_ok=True)
    path = os.path.join(RESULT_ROOT, "evidence", prop + ".json")
    tmp = path + ".tmp"
    with open(tmp, "w") as f:
        json.dump(ev, f, indent=1)
    os.replace(tmp, path)
    return path


def tier_and_seed(argv_tier=None):
    tier = argv_tier or os.environ.get("VERIF_TIER") or "quick"
    if tier not in ("quick", "thorough"):
        tier = "quick"
    try:
        seed = int(os.environ.get("VERIF_SEED", "0"))
    except ValueError:
        seed = 0
    return tier, seed


def write_replay(prop, k, payload):
    d = os.path.join(RESULT_ROOT, "replays")
    os.makedirs(d, exist_ok=True)
    path = os.path.join(d, "%s-%d.json" % (prop, k))
    with open(path, "w") as f:
        json.dump(payload, f, indent=1)
    return path


def clear_replays(prop):
    d = os.path.join(RESULT_ROOT, "replays")
    if os.path.isdir(d):
        for n in os.listdir(d):
            if n.startswith(prop + "-"):
                try:
                    os.unlink(os.path.join(d, n))
                except OSError:
                    pass
