// Reference models for C01 (integer arithmetic) and C07 (bitwise/shift/rotate), written from the
// property statements with wide (__int128) arithmetic; independent of xsimd.
#pragma once
#include <limits>
#include <type_traits>

#include "elementwise.hpp"

namespace xv
{
    typedef __int128 wide;

    template <class T>
    inline T wrap(wide v) // reduction modulo 2^bits into T's range
    {
        using U = typename std::make_unsigned<T>::type;
        return (T)(U)(unsigned __int128)v;
    }
    template <class T>
    inline T clampT(wide v)
    {
        wide lo = std::numeric_limits<T>::min(), hi = std::numeric_limits<T>::max();
        return (T)(v < lo ? lo : v > hi ? hi
                                       : v);
    }
    inline wide floordiv2(wide s) { return (s >= 0) ? s / 2 : -((-s + 1) / 2); }
    inline wide ceildiv2(wide s) { return (s >= 0) ? (s + 1) / 2 : -((-s) / 2); }

#define XV_REF(NAME, BODY)                                \
    template <class T>                                    \
    struct NAME                                           \
    {                                                     \
        static inline void f(const Ops<T>& x, Res<T>& r)  \
        {                                                 \
            (void)x;                                      \
            BODY                                          \
        }                                                 \
    };

    XV_REF(ref_add, r.v = wrap<T>((wide)x.a + (wide)x.b);)
    XV_REF(ref_sub, r.v = wrap<T>((wide)x.a - (wide)x.b);)
    XV_REF(ref_mul, r.v = wrap<T>((wide)x.a * (wide)x.b);)
    XV_REF(ref_div,
           if (x.b == 0 || (std::is_signed<T>::value && x.a == std::numeric_limits<T>::min() && (wide)x.b == -1)) { r.skip = true; return; } r.v
           = wrap<T>((wide)x.a / (wide)x.b);) // C++ '/' on __int128 truncates toward zero
    XV_REF(ref_mod,
           if (x.b == 0 || (std::is_signed<T>::value && x.a == std::numeric_limits<T>::min() && (wide)x.b == -1)) { r.skip = true; return; } r.v
           = wrap<T>((wide)x.a % (wide)x.b);)
    XV_REF(ref_neg, r.v = wrap<T>(-(wide)x.a);)
    XV_REF(ref_abs, r.v = wrap<T>((wide)x.a < 0 ? -(wide)x.a : (wide)x.a);)
    XV_REF(ref_min, r.v = x.a < x.b ? x.a : x.b;)
    XV_REF(ref_max, r.v = x.a > x.b ? x.a : x.b;)
    XV_REF(ref_incr, r.v = wrap<T>((wide)x.a + 1);)
    XV_REF(ref_decr, r.v = wrap<T>((wide)x.a - 1);)
    XV_REF(ref_incr_if, r.v = x.m ? wrap<T>((wide)x.a + 1) : x.a;)
    XV_REF(ref_decr_if, r.v = x.m ? wrap<T>((wide)x.a - 1) : x.a;)
    XV_REF(ref_fma, r.v = wrap<T>((wide)x.a * (wide)x.b + (wide)x.c);)
    XV_REF(ref_fms, r.v = wrap<T>((wide)x.a * (wide)x.b - (wide)x.c);)
    XV_REF(ref_fnma, r.v = wrap<T>(-((wide)x.a * (wide)x.b) + (wide)x.c);)
    XV_REF(ref_fnms, r.v = wrap<T>(-((wide)x.a * (wide)x.b) - (wide)x.c);)
    XV_REF(ref_sign, r.v = (T)(x.a > 0 ? 1 : (x.a < 0 ? -1 : 0));)
    XV_REF(ref_sadd, r.v = clampT<T>((wide)x.a + (wide)x.b);)
    XV_REF(ref_ssub, r.v = clampT<T>((wide)x.a - (wide)x.b);)
    // unsigned: floor((a+b)/2); signed: rounding toward zero
    XV_REF(ref_avg, wide s = (wide)x.a + (wide)x.b; r.v = (T)(std::is_signed<T>::value ? s / 2 : floordiv2(s));)
    // ceil((a+b)/2) whenever a+b >= 0; unconstrained otherwise
    XV_REF(ref_avgr, wide s = (wide)x.a + (wide)x.b; if (s < 0) { r.skip = true; return; } r.v = (T)ceildiv2(s);)
    // self-aliased spellings (the same object on both sides: a OP= a, fma(a, a, a))
    XV_REF(ref_selfadd, r.v = wrap<T>((wide)x.a + (wide)x.a);)
    XV_REF(ref_selfsub, r.v = (T)0;)
    XV_REF(ref_selfmul, r.v = wrap<T>((wide)x.a * (wide)x.a);)
    XV_REF(ref_selfid, r.v = x.a;)
    XV_REF(ref_selffma, r.v = wrap<T>((wide)x.a * (wide)x.a + (wide)x.a);)
    XV_REF(ref_add_scalar, r.v = wrap<T>((wide)x.a + (wide)(T)x.p);)
    XV_REF(ref_mul_scalar, r.v = wrap<T>((wide)x.a * (wide)(T)x.p);)

    // operands that would trap in a scalar fallback are replaced before the kernel sees them
    template <class T>
    struct san_div
    {
        static inline void f(Ops<T>& x)
        {
            if (x.b == 0)
                x.b = 1;
            if (std::is_signed<T>::value && x.a == std::numeric_limits<T>::min() && (wide)x.b == -1)
                x.b = 1;
        }
    };

    // ---- C07 ----
    template <class T>
    using UT = typename std::make_unsigned<T>::type;
    template <class T>
    constexpr int bitsof() { return (int)sizeof(T) * 8; }

    XV_REF(ref_and, r.v = (T)((UT<T>)x.a & (UT<T>)x.b);)
    XV_REF(ref_or, r.v = (T)((UT<T>)x.a | (UT<T>)x.b);)
    XV_REF(ref_xor, r.v = (T)((UT<T>)x.a ^ (UT<T>)x.b);)
    XV_REF(ref_not, r.v = (T)(UT<T>)(~(uint64_t)(UT<T>)x.a);)
    XV_REF(ref_andnot, r.v = (T)((UT<T>)x.a & (UT<T>)(~(uint64_t)(UT<T>)x.b));) // x & ~y

    template <class T>
    inline T ref_shl_bits(T a, long n) { return (T)(UT<T>)((uint64_t)(UT<T>)a << n); }
    template <class T>
    inline T ref_shr_bits(T a, long n)
    {
        if (std::is_signed<T>::value)
            return (T)((int64_t)a >> n); // arithmetic on the sign-extended value
        return (T)(UT<T>)((uint64_t)(UT<T>)a >> n);
    }
    template <class T>
    inline T ref_rotl_bits(T a, long n)
    {
        constexpr int W = bitsof<T>();
        uint64_t u = (uint64_t)(UT<T>)a;
        n %= W;
        if (n == 0)
            return a;
        return (T)(UT<T>)((u << n) | (u >> (W - n)));
    }
    inline bool count_ok(long n, int W) { return n >= 0 && n < W; }

    XV_REF(ref_shl_s, if (!count_ok(x.p, bitsof<T>())) { r.skip = true; return; } r.v = ref_shl_bits<T>(x.a, x.p);)
    XV_REF(ref_shr_s, if (!count_ok(x.p, bitsof<T>())) { r.skip = true; return; } r.v = ref_shr_bits<T>(x.a, x.p);)
    XV_REF(ref_shl_v, long n = (long)(wide)x.b; if ((wide)x.b < 0 || !count_ok(n, bitsof<T>())) { r.skip = true; return; } r.v = ref_shl_bits<T>(x.a, n);)
    XV_REF(ref_shr_v, long n = (long)(wide)x.b; if ((wide)x.b < 0 || !count_ok(n, bitsof<T>())) { r.skip = true; return; } r.v = ref_shr_bits<T>(x.a, n);)
    XV_REF(ref_rotl_s, if (!count_ok(x.p, bitsof<T>())) { r.skip = true; return; } r.v = ref_rotl_bits<T>(x.a, x.p);)
    XV_REF(ref_rotr_s, if (!count_ok(x.p, bitsof<T>())) { r.skip = true; return; } r.v = ref_rotl_bits<T>(x.a, (bitsof<T>() - x.p) % bitsof<T>());)
    XV_REF(ref_rotl_v, long n = (long)(wide)x.b; if ((wide)x.b < 0 || !count_ok(n, bitsof<T>())) { r.skip = true; return; } r.v = ref_rotl_bits<T>(x.a, n);)
    XV_REF(ref_rotr_v, long n = (long)(wide)x.b; if ((wide)x.b < 0 || !count_ok(n, bitsof<T>())) { r.skip = true; return; } r.v = ref_rotl_bits<T>(x.a, (bitsof<T>() - n) % bitsof<T>());)

    // the kernel must not be handed counts outside [0,bits) (undefined in the scalar fallbacks)
    template <class T>
    struct san_count
    {
        static inline void f(Ops<T>& x)
        {
            if ((wide)x.b < 0 || (wide)x.b >= bitsof<T>())
                x.b = 0;
        }
    };

    template <template <class> class R>
    inline OpSpec& def_int(const char* name, const char* space, int param_kind = 0)
    {
        OpSpec& s = specs()[name];
        s.name = name;
        s.space = space;
        s.param_kind = param_kind;
        set_int_refs<R>(s);
        return s;
    }

    inline void register_int_specs()
    {
        def_int<ref_add>("add", "bin");
        def_int<ref_sub>("sub", "bin");
        def_int<ref_mul>("mul", "bin");
        set_int_sans<san_div>(def_int<ref_div>("div", "bin"));
        set_int_sans<san_div>(def_int<ref_mod>("mod", "bin"));
        def_int<ref_neg>("neg", "un");
        def_int<ref_abs>("abs", "un");
        def_int<ref_min>("min", "bin");
        def_int<ref_max>("max", "bin");
        def_int<ref_incr>("incr", "un");
        def_int<ref_decr>("decr", "un");
        def_int<ref_incr_if>("incr_if", "un_mask");
        def_int<ref_decr_if>("decr_if", "un_mask");
        def_int<ref_fma>("fma", "ter");
        def_int<ref_fms>("fms", "ter");
        def_int<ref_fnma>("fnma", "ter");
        def_int<ref_fnms>("fnms", "ter");
        def_int<ref_sign>("sign", "un");
        def_int<ref_sadd>("sadd", "bin");
        def_int<ref_ssub>("ssub", "bin");
        def_int<ref_avg>("avg", "bin");
        def_int<ref_avgr>("avgr", "bin");
        def_int<ref_selfadd>("selfadd", "un");
        def_int<ref_selfsub>("selfsub", "un");
        def_int<ref_selfmul>("selfmul", "un");
        def_int<ref_selfid>("selfid", "un");
        def_int<ref_selffma>("selffma", "un");
        def_int<ref_add_scalar>("add.scalar", "un", 2);
        def_int<ref_mul_scalar>("mul.scalar", "un", 2);

        def_int<ref_and>("and", "bin");
        def_int<ref_or>("or", "bin");
        def_int<ref_xor>("xor", "bin");
        def_int<ref_not>("not", "un");
        def_int<ref_andnot>("andnot", "bin");
        def_int<ref_shl_s>("shl.s", "un", 1);
        def_int<ref_shr_s>("shr.s", "un", 1);
        set_int_sans<san_count>(def_int<ref_shl_v>("shl.v", "shift_v"));
        set_int_sans<san_count>(def_int<ref_shr_v>("shr.v", "shift_v"));
        def_int<ref_rotl_s>("rotl.s", "un", 1);
        def_int<ref_rotr_s>("rotr.s", "un", 1);
        set_int_sans<san_count>(def_int<ref_rotl_v>("rotl.v", "shift_v"));
        set_int_sans<san_count>(def_int<ref_rotr_v>("rotr.v", "shift_v"));
    }
}
