// Reference model for C05 (data movement): index-level permutation semantics from the property's
// definitions, applied per batch (lane-aware).  The compile-time mask families come from the same generator
// as the harness programs (gen/gen_perm.py, data form), loaded at start-up.
#pragma once
#include "refs_red.hpp"

namespace xv
{
    struct PermTables
    {
        std::map<int, std::vector<std::vector<uint8_t>>> swz, shf;
        bool loaded = false;
    };
    inline PermTables& perm_tables()
    {
        static PermTables t;
        return t;
    }
    inline void load_perm_tables(const std::string& path)
    {
        FILE* f = fopen(path.c_str(), "r");
        if (!f)
        {
            perror(path.c_str());
            exit(2);
        }
        char line[4096];
        while (fgets(line, sizeof line, f))
        {
            char fam[8];
            int n, k, off = 0;
            if (sscanf(line, "%7s %d %d%n", fam, &n, &k, &off) != 3)
                continue;
            std::vector<uint8_t> v;
            const char* p = line + off;
            int x, m;
            while (sscanf(p, "%d%n", &x, &m) == 1)
            {
                v.push_back((uint8_t)x);
                p += m;
            }
            auto& tab = std::string(fam) == "SWZ" ? perm_tables().swz[n] : perm_tables().shf[n];
            if ((int)tab.size() != k || (int)v.size() != n)
            {
                fprintf(stderr, "perm tables: malformed line %s", line);
                exit(2);
            }
            tab.push_back(v);
        }
        fclose(f);
        perm_tables().loaded = true;
    }

    enum PermKind
    {
        PK_SWZ_CONST,
        PK_SHF_CONST,
        PK_ZIP_LO,
        PK_ZIP_HI,
        PK_SLIDE_L,
        PK_SLIDE_R,
        PK_ROT_L,
        PK_ROT_R,
        PK_EXTRACT,
        PK_INSERT,
        PK_GET,
        PK_TRANSPOSE,
        PK_SWZ_DYN,
        PK_COMPRESS,
        PK_EXPAND,
        PK_SELECT_CONST,
    };
    // the 136 compile-time select masks of C03 (one-hot / all-but-one per lane position, alternating, halves, quarters, pairs, pseudo-random, all, none)
    inline bool select_const_mask(size_t K, size_t i, size_t n)
    {
        if (K < 64)
            return i == K % n;
        if (K < 128)
            return i != (K - 64) % n;
        switch (K)
        {
        case 128:
            return i % 2 == 0;
        case 129:
            return i < n / 2;
        case 130:
            return i >= n / 2;
        case 131:
            return i % 4 < 2;
        case 132:
            return (i / (n >= 8 ? n / 4 : 1)) % 2 == 0;
        case 133:
            return (i * 7 + 3) % 5 < 2;
        case 134:
            return true;
        default:
            return false;
        }
    }

    // source of output element i of a batch: index into [x lanes 0..L-1 | y lanes L..2L-1], or -1 for zero fill.
    // Byte-granular kinds (slide) are expressed on bytes: `unit` is the element size or 1.
    template <int KIND>
    void ref_perm(const RefArgs& A)
    {
        const size_t L = (size_t)A.lanes;
        const size_t es = (size_t)xv_type_size[A.sig->elem];
        const char* x = (const char*)A.in[0];
        const char* y = A.sig->nin > 1 ? (const char*)A.in[1] : nullptr;
        char* e1 = (char*)A.e1[0];
        char* e2 = (char*)A.e2[0];
        const size_t p = (size_t)A.param;
        const size_t G = KIND == PK_TRANSPOSE ? L * L : L;
        size_t done = 0;
        for (size_t b = 0; b + G <= A.n; b += G)
        {
            const char* xb = x + b * es;
            const char* yb = y ? y + b * es : nullptr;
            char* ob = e1 + b * es;
            auto put = [&](size_t i, const char* src)
            {
                if (src)
                    memcpy(ob + i * es, src, es);
                else
                    memset(ob + i * es, 0, es);
            };
            switch (KIND)
            {
            case PK_SWZ_CONST:
            {
                const auto& t = perm_tables().swz[(int)L];
                const auto& m = t[p % t.size()];
                for (size_t i = 0; i < L; ++i)
                    put(i, xb + m[i] * es); // out[i] = x[idx[i]]
                break;
            }
            case PK_SHF_CONST:
            {
                const auto& t = perm_tables().shf[(int)L];
                const auto& m = t[p % t.size()];
                for (size_t i = 0; i < L; ++i)
                    put(i, m[i] < L ? xb + m[i] * es : yb + (m[i] - L) * es); // idx < n ? x[idx] : y[idx - n]
                break;
            }
            case PK_ZIP_LO:
            case PK_ZIP_HI:
            {
                const size_t base = KIND == PK_ZIP_LO ? 0 : L / 2; // interleave of the low / high halves
                for (size_t i = 0; i < L; ++i)
                    put(i, (i % 2 == 0 ? xb : yb) + (base + i / 2) * es);
                break;
            }
            case PK_SLIDE_L:
            case PK_SLIDE_R:
            {
                // byte shift of the whole register with zero fill; left = towards higher lane indices
                const size_t W = L * es, N = p % (W + 1);
                for (size_t j = 0; j < W; ++j)
                {
                    if (KIND == PK_SLIDE_L)
                        ob[j] = j >= N ? xb[j - N] : 0;
                    else
                        ob[j] = j + N < W ? xb[j + N] : 0;
                }
                break;
            }
            case PK_ROT_L:
            case PK_ROT_R:
            {
                const size_t N = p % L;
                for (size_t i = 0; i < L; ++i)
                    put(i, xb + (KIND == PK_ROT_L ? (i + N) % L : (i + L - N) % L) * es); // out[i] = x[(i +- N) mod n]
                break;
            }
            case PK_EXTRACT:
            {
                // window [y[k..n-1], x[0..k-1]]
                const size_t k = p % L;
                for (size_t i = 0; i < L; ++i)
                    put(i, i < L - k ? yb + (k + i) * es : xb + (i - (L - k)) * es);
                break;
            }
            case PK_INSERT:
            {
                const size_t I = p % L;
                for (size_t i = 0; i < L; ++i)
                    put(i, i == I ? yb + I * es : xb + i * es);
                break;
            }
            case PK_GET:
            {
                const size_t I = p % L;
                for (size_t i = 0; i < L; ++i)
                    put(i, xb + I * es);
                break;
            }
            case PK_TRANSPOSE:
                for (size_t r = 0; r < L; ++r)
                    for (size_t c = 0; c < L; ++c)
                        memcpy(ob + (r * L + c) * es, xb + (c * L + r) * es, es); // row/column exchange
                break;
            case PK_SWZ_DYN:
                for (size_t i = 0; i < L; ++i)
                {
                    uint64_t idx = load_bits(yb + i * es, (int)es);
                    put(i, idx < L ? xb + idx * es : nullptr);
                }
                break;
            case PK_COMPRESS:
            {
                const uint8_t* m = (const uint8_t*)A.in[1] + b;
                size_t o = 0;
                for (size_t i = 0; i < L; ++i)
                    if (m[i])
                        put(o++, xb + i * es); // order-preserving packing
                for (; o < L; ++o)
                    put(o, nullptr);
                break;
            }
            case PK_SELECT_CONST:
                for (size_t i = 0; i < L; ++i)
                    put(i, select_const_mask(p % 136, i, L) ? xb + i * es : yb + i * es);
                break;
            case PK_EXPAND:
            {
                const uint8_t* m = (const uint8_t*)A.in[1] + b;
                size_t o = 0;
                for (size_t i = 0; i < L; ++i)
                    put(i, m[i] ? xb + (o++) * es : nullptr); // order-preserving unpacking
                break;
            }
            }
            done = b + G;
        }
        memcpy(e2, e1, done * es);
        memset(A.flags, F_EXACT, done);
        if (done < A.n)
            memset(A.flags + done, F_SKIP, A.n - done);
    }

    template <int KIND>
    inline void def_perm(const char* name, const char* space)
    {
        OpSpec& s = specs()[name];
        s.name = name;
        s.space = space;
        s.batchwise = true;
        for (int t = 0; t < XV_NTYPES; ++t)
            s.ref[t] = &ref_perm<KIND>;
    }
    inline void register_perm_specs()
    {
        def_perm<PK_SWZ_CONST>("swizzle.const", "perm.tags");
        def_perm<PK_SHF_CONST>("shuffle.const", "perm.tags");
        def_perm<PK_ZIP_LO>("zip_lo", "perm.tags");
        def_perm<PK_ZIP_HI>("zip_hi", "perm.tags");
        def_perm<PK_SLIDE_L>("slide_left", "perm.tags");
        def_perm<PK_SLIDE_R>("slide_right", "perm.tags");
        def_perm<PK_ROT_L>("rotate_left", "perm.tags");
        def_perm<PK_ROT_R>("rotate_right", "perm.tags");
        def_perm<PK_EXTRACT>("extract_pair", "perm.tags");
        def_perm<PK_INSERT>("insert", "perm.tags");
        def_perm<PK_GET>("get", "perm.tags");
        def_perm<PK_TRANSPOSE>("transpose", "perm.tags");
        def_perm<PK_SWZ_DYN>("swizzle.dyn", "perm.index");
        def_perm<PK_COMPRESS>("compress", "perm.mask");
        def_perm<PK_EXPAND>("expand", "perm.mask");
        def_perm<PK_SELECT_CONST>("select_const", "perm.tags");
    }
    // parameter range of a data-movement op for batches of L lanes of an es-byte type
    inline std::vector<long> perm_params(const std::string& op, int L, int es)
    {
        std::vector<long> p;
        long n = 1;
        if (op == "swizzle.const")
            n = (long)perm_tables().swz[L].size();
        else if (op == "shuffle.const")
            n = (long)perm_tables().shf[L].size();
        else if (op == "slide_left" || op == "slide_right")
            n = (long)L * es + 1;
        else if (op == "rotate_left" || op == "rotate_right" || op == "extract_pair" || op == "insert" || op == "get" || op == "get.const")
            n = L;
        if (op == "select_const")
            n = 136;
        for (long k = 0; k < n; ++k)
            p.push_back(k);
        return p;
    }
}
