// Explorer for the elementary functions (C10, C11, C14 and the elementary-function part of C17):
// complete sweeps of stated argument spaces (all 2^32 float32 arguments in the thorough tier) in two
// stream orders, every architecture's real kernel, per-function frozen ulp bounds, MPFR as arbiter,
// loop-tick accounting and a hang watchdog.
#include <fcntl.h>
#include <fenv.h>
#include <signal.h>
#include <unistd.h>
#include <xmmintrin.h>

#include "mathlib.hpp"
#include "mathfind.hpp"
#include "report.hpp"

using namespace xv;

static std::vector<std::string> split(const std::string& s, char c)
{
    std::vector<std::string> o;
    std::string cur;
    for (char ch : s)
    {
        if (ch == c)
        {
            o.push_back(cur);
            cur.clear();
        }
        else
            cur += ch;
    }
    o.push_back(cur);
    return o;
}

// ---------------------------------------------------------------------------------------------
// argument spaces
// ---------------------------------------------------------------------------------------------
template <class T>
struct Space
{
    bool all32 = false; // every float32 bit pattern
    std::vector<uint64_t> pts; // otherwise: explicit list of bit patterns
    std::vector<uint64_t> pts2; // second operand (binary functions): same length as pts
    uint64_t size() const { return all32 ? (1ull << 32) : pts.size(); }
    uint64_t at(uint64_t i) const { return all32 ? i : pts[i]; }
    std::string label;
};

// switch points of the algorithms (DESIGN.md section 2), used as window centres
static const double SWITCH_POINTS[] = {
    2.0 / 3, 0.65, 2.2, 1.0, 0.625, 0.5, 0.25, 0.75, 1.25, 1.5, 2.5, 6.5, 13.0, 3.0, 2.0, 33.0, 34.0, 35.04, 171.6, 172.0,
    0.78539816339744830962, 1.57079632679489661923, 3.14159265358979323846, 62.83185307179586, 201.06192982974676, 823549.6645 /* 2^18 pi */,
    88.72, 87.33, 103.97, 104.0, 709.78, 745.13, 127.0, 128.0, 149.0, 1023.0, 1024.0, 1074.0, 38.53, 37.92, 308.25, 323.3,
    1e-4, 1.0 / 4096, 4.0, 5.0, 8.0, 9.0, 10.0, 19.06, 20.0, 22.0, 26.0, 27.0, 5.921, 6.0, 0.46875, 0.35, 1.0e10,
    0.5 + 1e-7, 1 - 1e-7, 1.41421356237309504880, 0.70710678118654752440, 2.71828182845904523536, 0.1, 100.0, 1000.0,
};

template <class T>
static void add_lattice(std::vector<uint64_t>& v, uint64_t seed, int nmant, bool thorough)
{
    auto L = fp_lattice<T>(seed, 64, 1);
    v.insert(v.end(), L.v.begin(), L.v.end());
    auto Bn = binades<T>(nmant, seed, true);
    v.insert(v.end(), Bn.v.begin(), Bn.v.end());
    for (double c : SWITCH_POINTS)
    {
        window<T>(v, (T)c, thorough ? 256 : 64);
    }
    // integers and half-integers +- ulp up to 180 (gamma family poles and switch points)
    for (int k = 1; k <= 360; ++k)
        window<T>(v, (T)(k * 0.5), 2);
    // k * pi/2 +- few ulp (trigonometric reduction tiers)
    const int KMAX = thorough ? 20000 : 3000;
    for (int k = 1; k <= KMAX; ++k)
        window<T>(v, (T)(k * 1.57079632679489661923L), 3);
    for (int e = 12; e < (std::is_same<T, float>::value ? 100 : 900); e += (std::is_same<T, float>::value ? 1 : 7))
    {
        long double k = std::floor(std::ldexp(1.0L, e) * 1.3L);
        window<T>(v, (T)(k * 1.57079632679489661923L), 2);
    }
}

template <class T>
static Space<T> unary_space(bool thorough, uint64_t seed)
{
    Space<T> S;
    if (std::is_same<T, float>::value && thorough)
    {
        S.all32 = true;
        S.label = "all 2^32 float32 bit patterns";
        return S;
    }
    const int nm = std::is_same<T, float>::value ? 2048 : (thorough ? 4096 : 256);
    add_lattice<T>(S.pts, seed, nm, thorough);
    dedup_keep_order(S.pts);
    // keep the length a multiple of 64 (whole batches for every architecture)
    while (S.pts.size() % 64)
        S.pts.push_back(S.pts[S.pts.size() % 7]);
    S.label = std::string("every binade x ") + std::to_string(nm) + " mantissa patterns, +-" + (thorough ? "256" : "64") + "-ulp windows at " + std::to_string(sizeof(SWITCH_POINTS) / sizeof(double)) + " switch points, k*pi/2 +- 3 ulp, k/2 +- 2 ulp, special lattice, seed symbols";
    return S;
}

template <class T>
static Space<T> binary_space(const std::string& fn, bool thorough, uint64_t seed)
{
    // thinned lattice^2: every 4th binade x few mantissas, integers/half-integers (pow exponents), specials, seed values
    std::vector<uint64_t> L;
    auto Bn = binades<T>(thorough ? 6 : 3, seed, true, std::is_same<T, float>::value ? (thorough ? 2 : 4) : (thorough ? 16 : 32));
    L.insert(L.end(), Bn.v.begin(), Bn.v.end());
    auto F = fp_lattice<T>(seed, thorough ? 64 : 16, 0);
    L.insert(L.end(), F.v.begin(), F.v.end());
    for (int k = -24; k <= 24; ++k)
    {
        L.push_back(to_bits<T>((T)k));
        L.push_back(to_bits<T>((T)(k + 0.5)));
        L.push_back(to_bits<T>((T)(k / 3.0)));
    }
    for (double c : { 1e-3, 0.999, 1.001, 1.0000001, 0.9999999, 2.5, 10.0, 1e5, 1e-5, 33.3, 127.0, 255.5 })
    {
        L.push_back(to_bits<T>((T)c));
        L.push_back(to_bits<T>((T)-c));
    }
    dedup_keep_order(L);
    if (L.size() % 2 == 0)
        L.push_back(L[1]); // odd size: every value meets every lane
    Space<T> S;
    S.pts.reserve(L.size() * L.size());
    S.pts2.reserve(L.size() * L.size());
    for (auto a : L)
        for (auto b : L)
        {
            S.pts.push_back(a);
            S.pts2.push_back(b);
        }
    while (S.pts.size() % 64)
    {
        S.pts.push_back(S.pts[S.pts.size() % 5]);
        S.pts2.push_back(S.pts2[S.pts2.size() % 3]);
    }
    (void)fn;
    S.label = "lattice^2 with |lattice| = " + std::to_string(L.size());
    return S;
}

// ---------------------------------------------------------------------------------------------
struct MImpl
{
    int module;
    const xv_op* op;
};

static const double BLOCK_CPU_LIMIT_S = 1.0;

struct FnStats
{
    std::atomic<uint64_t> points { 0 }, judged { 0 }, skipped { 0 }, slow { 0 }, mpfr_checked { 0 }, disagreements { 0 }, aborted_calls { 0 };
    std::atomic<uint64_t> maxerr_bits { 0 }; // double bits of the maximum accepted error (monotone for positive doubles)
    std::atomic<uint64_t> maxticks { 0 };
    std::atomic<uint64_t> max_block_cpu_us { 0 }; // largest CPU time one block of kernel calls took on one architecture
    void upd_maxerr(double e)
    {
        uint64_t b;
        memcpy(&b, &e, 8);
        uint64_t cur = maxerr_bits.load();
        while (b > cur && !maxerr_bits.compare_exchange_weak(cur, b))
        {
        }
    }
    double maxerr() const
    {
        uint64_t b = maxerr_bits.load();
        double d;
        memcpy(&d, &b, 8);
        return d;
    }
};

struct Heartbeat
{
    std::atomic<double> t0 { 0 };
    std::atomic<const char*> op { nullptr };
    std::atomic<const char*> arch { nullptr };
    std::atomic<uint64_t> first { 0 }, last { 0 };
};

// A kernel call that dies (stack overflow of a runaway recursion, wild access) must end the run with a report that names
// the call, not with a bare signal: every worker runs on an alternate signal stack and publishes its heartbeat slot.
static thread_local Heartbeat* tl_hb = nullptr;
static char g_crash_out[512];
static char g_crash_prop[16];
static void crash_handler(int sig, siginfo_t*, void*)
{
    char buf[700];
    Heartbeat* h = tl_hb;
    const char* op = h && h->op.load() ? h->op.load() : "?";
    const char* arch = h && h->arch.load() ? h->arch.load() : "?";
    int n = snprintf(buf, sizeof buf, "{\"property_id\": \"%s\", \"crash\": true, \"signal\": %d, \"op\": \"%s\", \"arch\": \"%s\", \"first_arg\": \"0x%llx\", \"last_arg\": \"0x%llx\"}\n", g_crash_prop, sig, op, arch,
                     h ? (unsigned long long)h->first.load() : 0ull, h ? (unsigned long long)h->last.load() : 0ull);
    int fd = open(g_crash_out, O_WRONLY | O_CREAT | O_TRUNC, 0644);
    if (fd >= 0 && n > 0)
    {
        (void)!write(fd, buf, (size_t)n);
        close(fd);
    }
    _exit(5);
}
static void use_alt_stack()
{
    static thread_local bool done = false;
    if (done)
        return;
    done = true;
    static thread_local char* mem = (char*)malloc(1 << 16);
    stack_t ss;
    ss.ss_sp = mem;
    ss.ss_size = 1 << 16;
    ss.ss_flags = 0;
    sigaltstack(&ss, nullptr);
}

struct MathExplorer
{
    std::vector<Module> mods;
    std::string prop, tier;
    uint64_t seed = 0;
    int nthreads = 16;
    bool thorough = false;
    bool mode_ticks = false; // C14: judge loop ticks / termination instead of accuracy
    bool mode_scalar = false; // C17: the scalar overloads (prop "C17" ops of the math harness)
    double deadline = 0;
    std::atomic<bool> expired { false };
    std::set<std::string> only;

    std::mutex mu;
    std::vector<Violation> detailed;
    std::map<std::string, uint64_t> by_key, by_finding;
    uint64_t total = 0, unknown = 0;
    std::set<std::string> known_open;
    std::map<std::string, std::unique_ptr<FnStats>> stats;
    std::map<std::string, uint64_t> per_arch;
    uint64_t states = 0;
    std::vector<std::string> notes;
    std::vector<Sample> samples;
    std::vector<Heartbeat> hb;
    std::map<std::string, std::atomic<uint64_t>*> sat; // unknown-failure counters per fn|type|arch

    std::vector<MImpl> impls_of(const std::string& name, int elem, const char* p)
    {
        std::vector<MImpl> r;
        for (size_t mi = 0; mi < mods.size(); ++mi)
            for (int k = 0; k < mods[mi].m->nops; ++k)
            {
                const xv_op& o = mods[mi].m->ops[k];
                if (o.elem == elem && name == o.name && std::string(p) == o.prop)
                    r.push_back({ (int)mi, &o });
            }
        return r;
    }

    void record(Violation&& v, const std::string& fid)
    {
        std::lock_guard<std::mutex> g(mu);
        if (const char* dump = getenv("XV_DUMP")) // triage aid: every failing point, one line each
        {
            static FILE* df = fopen(dump, "w");
            if (df)
                fprintf(df, "%s %s %s %s | %s\n", v.op.c_str(), xv_type_name[v.elem], v.arch.c_str(), fid.c_str(), v.note.c_str());
        }
        ++total;
        std::string key = v.op + "|" + xv_type_name[v.elem] + "|" + v.arch + "|" + fid;
        uint64_t& c = by_key[key];
        ++c;
        if (fid.empty())
            ++unknown;
        else
            ++by_finding[fid];
        v.finding = fid;
        if (c <= (fid.empty() ? 3u : 1u) && detailed.size() < 4000)
            detailed.push_back(std::move(v));
    }

    template <class T>
    void run_fn(const MFun& f);
    template <class T>
    void run_fn_space(const MFun& f, const Space<T>& S, const std::vector<MImpl>& impls, const int norders);
    std::set<std::string> full_archs; // --full-archs: where the complete 2^32 sweeps of the thorough tier run
    std::vector<MImpl> only_full(const std::vector<MImpl>& v)
    {
        std::vector<MImpl> r;
        for (auto& im : v)
            if (full_archs.count(mods[(size_t)im.module].arch))
                r.push_back(im);
        return r;
    }
    template <class T>
    void run_all();
    template <class T>
    void run_special();
    template <class T>
    void run_placement();
    template <class T>
    void run_complex();
    bool mode_special = false, mode_placement = false, mode_complex = false;
};

template <class T>
static inline T tval(uint64_t b)
{
    return from_bits<T>(b);
}

template <class T>
void MathExplorer::run_fn(const MFun& f)
{
    constexpr int elem = std::is_same<T, float>::value ? XV_F32 : XV_F64;
    const char* hprop = mode_scalar ? "C17" : "M";
    auto impls = impls_of(f.impl, elem, hprop);
    if (impls.empty())
        return;
    if (!only.empty() && !only.count(f.name))
        return;
    // The complete float32 sweep (2^32 arguments) of the thorough tier runs in neighbour order on the
    // architectures named by --full-archs (one per distinct set of floating-point kernels); every architecture
    // still gets the lattice space in both stream orders. Without --full-archs everything runs everywhere.
    const bool big = thorough && std::is_same<T, float>::value && f.arity == 1 && !full_archs.empty();
    if (big)
    {
        run_fn_space<T>(f, unary_space<T>(false, seed), impls, 2);
        const bool loops = (std::is_same<T, float>::value ? f.tick32 : f.tick64) > 0;
        run_fn_space<T>(f, unary_space<T>(true, seed), only_full(impls), (mode_ticks && loops) ? 2 : 1);
    }
    else
        run_fn_space<T>(f, f.arity == 1 ? unary_space<T>(thorough, seed) : binary_space<T>(f.name, thorough, seed), impls, 2);
}

template <class T>
void MathExplorer::run_fn_space(const MFun& f, const Space<T>& S, const std::vector<MImpl>& impls, const int norders)
{
    constexpr int elem = std::is_same<T, float>::value ? XV_F32 : XV_F64;
    using Tr = fp_traits<T>;
    if (impls.empty())
        return;
    const uint64_t N = S.size();
    const size_t BLK = 1u << 14;
    const uint64_t nblocks = (N + BLK - 1) / BLK;
    const std::string fkey = std::string(f.name) + "<" + xv_type_name[elem] + ">";
    if (!stats.count(fkey))
        stats[fkey].reset(new FnStats);
    FnStats& ST = *stats[fkey];
    {
        std::string on;
        if (impls.size() < mods.size())
            for (auto& im : impls)
                on += (on.empty() ? "" : " ") + mods[(size_t)im.module].arch;
        notes.push_back(fkey + ": " + S.label + " (" + std::to_string(N) + " points) x " + (norders == 2 ? "{neighbour, strided} order" : "neighbour order") + (on.empty() ? "" : " on " + on));
    }
    const unsigned tickbound = std::is_same<T, float>::value ? f.tick32 : f.tick64;
    std::vector<std::atomic<uint64_t>> unk(impls.size());
    for (auto& u : unk)
        u = 0;

    struct Scratch
    {
        Buf a, b, out0, out1, ref, cls, ticks, flo, fhi;
    };
    std::vector<Scratch> scr((size_t)nthreads);
    std::vector<std::atomic<char>> kf_seen(math_findings().size() * impls.size());
    for (auto& k : kf_seen)
        k = 0;
    parallel_for(nblocks * norders, nthreads, [&](int t, uint64_t job)
                 {
        if (expired)
            return;
        if (deadline != 0 && now_s() > deadline)
        {
            expired = true;
            return;
        }
        const int order = (int)(job / nblocks);
        const uint64_t blk = job % nblocks;
        Scratch& X = scr[(size_t)t];
        const size_t n = (size_t)std::min<uint64_t>(BLK, N - blk * BLK);
        T* a = (T*)X.a.need(BLK * sizeof(T));
        T* b = (T*)X.b.need(BLK * sizeof(T));
        long double* ref = (long double*)X.ref.need(BLK * sizeof(long double));
        uint8_t* cls = (uint8_t*)X.cls.need(BLK);
        T* flo = (T*)X.flo.need(BLK * sizeof(T));
        T* fhi = (T*)X.fhi.need(BLK * sizeof(T));
        // ---- operands of this block ----
        const uint64_t nb16 = N / 16; // strided order: lane j of batch i reads point i + j * N/16
        for (size_t e = 0; e < n; ++e)
        {
            uint64_t idx;
            if (order == 0)
                idx = blk * BLK + e;
            else
            {
                uint64_t i = (blk * BLK + e) / 16, j = (blk * BLK + e) % 16;
                idx = (i + j * nb16) % N;
            }
            a[e] = tval<T>(S.at(idx));
            b[e] = f.arity == 2 ? tval<T>(S.pts2[idx]) : (T)0;
        }
        for (size_t e = n; e < BLK; ++e)
        {
            a[e] = (T)1;
            b[e] = (T)1;
        }
        // ---- reference and per-point class ----
        // class 0: skip (argument outside the accuracy claim or outside the domain), 1: judge
        for (size_t e = 0; e < n; ++e)
        {
            const uint64_t ab = to_bits<T>(a[e]);
            const uint64_t ea = (ab >> Tr::mant) & ((1u << Tr::ebits) - 1);
            bool arg_ok = ea != 0 && ea != (1u << Tr::ebits) - 1; // finite and not subnormal (zero is left to C12)
            if (f.arity == 2)
            {
                const uint64_t bb = to_bits<T>(b[e]);
                const uint64_t eb = (bb >> Tr::mant) & ((1u << Tr::ebits) - 1);
                arg_ok = arg_ok && eb != 0 && eb != (1u << Tr::ebits) - 1;
                if (arg_ok && std::string(f.name) == "hypot")
                {
                    // squares of the operands in the normal range
                    long double x2 = (long double)a[e] * a[e], y2 = (long double)b[e] * b[e];
                    arg_ok = x2 >= mlim<T>::MIN && x2 <= mlim<T>::MAX / 4 && y2 >= mlim<T>::MIN && y2 <= mlim<T>::MAX / 4;
                }
            }
            if (!arg_ok)
            {
                cls[e] = 0;
                ref[e] = 0;
                continue;
            }
            long double r;
            if (std::is_same<T, float>::value)
                r = f.arity == 1 ? (long double)f.r1((double)a[e]) : (long double)f.r2((double)a[e], (double)b[e]);
            else
                r = f.arity == 1 ? f.q1((long double)a[e]) : f.q2((long double)a[e], (long double)b[e]);
            ref[e] = r;
            cls[e] = (r != r) ? 0 : 1;
            // fast acceptance interval [flo, fhi] in T: a result inside it is within the bound (exact same criterion as judge())
            flo[e] = (T)1;
            fhi[e] = (T)0; // empty interval: slow path
            const long double ar = r < 0 ? -r : r;
            if (cls[e] == 1 && ar >= 4 * mlim<T>::MIN && ar <= mlim<T>::MAX / 4)
            {
                const long double u = ulp_of<T>(f.rule == R_LGAMMA ? (ar > 1 ? ar : 1.0L) : ar);
                const long double B = bound_of<T>(f, (long double)a[e], (long double)b[e], r);
                long double lo = r - B * u, hi = r + B * u;
                T l = (T)lo, h = (T)hi;
                if ((long double)l < lo)
                    l = std::nextafter(l, std::numeric_limits<T>::infinity());
                if ((long double)h > hi)
                    h = std::nextafter(h, -std::numeric_limits<T>::infinity());
                if (std::isfinite(l) && std::isfinite(h))
                {
                    flo[e] = l;
                    fhi[e] = h;
                }
            }
            else if (cls[e] == 1 && f.rule == R_LGAMMA && ar < 4 * mlim<T>::MIN)
            {
                // lgamma near its zeros: error in ulp of 1
                const long double u = ulp_of<T>(1.0L), B = bound_of<T>(f, (long double)a[e], 0, r);
                flo[e] = (T)(r - B * u * 0.999L);
                fhi[e] = (T)(r + B * u * 0.999L);
            }
        }
        ST.points += n;
        std::vector<uint64_t> kf_local(math_findings().size() * impls.size(), 0);
        // ---- every architecture ----
        for (size_t ii = 0; ii < impls.size(); ++ii)
        {
            if (unk[ii] > (getenv("XV_DUMP") ? 100000000u : 2000u))
                continue; // saturated: this (function, architecture) already has its violations
            const MImpl& im = impls[ii];
            const std::string& arch = mods[(size_t)im.module].arch;
            const size_t L = (size_t)im.op->lanes;
            const void* in[2] = { a, b };
            void* out[2] = { X.out0.need(BLK * sizeof(T)), X.out1.need(BLK * sizeof(T)) };
            uint32_t* ticks = (uint32_t*)X.ticks.need((BLK / 1 + 1) * sizeof(uint32_t));
            memset(ticks, 0, (BLK / L + 1) * sizeof(uint32_t));
            std::vector<size_t> aborted;
            Heartbeat& H = hb[(size_t)t];
            tl_hb = &H;
            use_alt_stack();
            H.op = f.name;
            H.arch = arch.c_str();
            H.first = to_bits<T>(a[0]);
            H.last = to_bits<T>(a[n - 1]);
            H.t0 = now_s();
            timespec c0;
            clock_gettime(CLOCK_THREAD_CPUTIME_ID, &c0);
            size_t start = 0;
            const size_t npad = (n + L - 1) / L * L;
            while (start < npad)
            {
                xv_ctx ctx;
                memset(&ctx, 0, sizeof ctx);
                ctx.tick_cap = 1000;
                ctx.aborted_at = -1;
                ctx.ticks = ticks + start / L;
                const void* in2[2] = { (const char*)a + start * sizeof(T), (const char*)b + start * sizeof(T) };
                void* out2[2] = { (char*)out[0] + start * sizeof(T), (char*)out[1] + start * sizeof(T) };
                im.op->fn(in2, out2, npad - start, &ctx);
                if (ctx.aborted_at < 0)
                    break;
                aborted.push_back(start + (size_t)ctx.aborted_at);
                ticks[(start + (size_t)ctx.aborted_at) / L] = 1001;
                start += (size_t)ctx.aborted_at + L;
            }
            H.t0 = 0;
            (void)in;
            {
                // C14 without a hook: the CPU time of this thread over the block (16384 / lanes kernel calls; a few
                // milliseconds for every function of the library). A loop or recursion whose trip count follows the
                // magnitude of an argument makes a block of huge arguments take seconds; thread CPU time does not
                // count the time this thread was descheduled, so machine load does not matter.
                timespec c1;
                clock_gettime(CLOCK_THREAD_CPUTIME_ID, &c1);
                const double cpu = (double)(c1.tv_sec - c0.tv_sec) + 1e-9 * (double)(c1.tv_nsec - c0.tv_nsec);
                const uint64_t us = (uint64_t)(cpu * 1e6);
                uint64_t cur = ST.max_block_cpu_us.load();
                while (us > cur && !ST.max_block_cpu_us.compare_exchange_weak(cur, us))
                {
                }
                if (mode_ticks && cpu > BLOCK_CPU_LIMIT_S)
                {
                    Violation v;
                    v.prop = prop;
                    v.op = f.name;
                    v.arch = arch;
                    v.elem = elem;
                    v.lanes = (int)L;
                    v.lane = 0;
                    v.nin = f.arity;
                    v.out_type = elem;
                    for (int k = 0; k < f.arity; ++k)
                    {
                        v.in_t[k] = elem;
                        for (size_t l = 0; l < L; ++l)
                            v.in[k].push_back(to_bits<T>((k == 0 ? a : b)[l]));
                    }
                    v.oracle = "CPU time of one block of kernel calls";
                    char buf[200];
                    snprintf(buf, sizeof buf, "%zu calls (arguments %s .. %s) took %.2f s of CPU time; the limit is %.1f s and every block of the unchanged library takes a few milliseconds", npad / L, hex(to_bits<T>(a[0]), sizeof(T)).c_str(), hex(to_bits<T>(a[n - 1]), sizeof(T)).c_str(), cpu, BLOCK_CPU_LIMIT_S);
                    v.note = buf;
                    v.expected = (uint64_t)(BLOCK_CPU_LIMIT_S * 1e6);
                    v.observed = us;
                    ++unk[ii];
                    record(std::move(v), "");
                }
            }
            const T* y = (const T*)out[f.out_slot];
            uint64_t judged = 0, skipped = 0;
            auto is_aborted = [&](size_t e)
            {
                for (size_t s : aborted)
                    if (e >= s && e < s + L)
                        return true;
                return false;
            };
            // ---- C14: loop ticks per call ----
            if (mode_ticks)
            {
                for (size_t bi = 0; bi * L < n; ++bi)
                {
                    uint32_t tk = ticks[bi];
                    judged += L;
                    uint64_t cur = ST.maxticks.load();
                    while (tk > cur && !ST.maxticks.compare_exchange_weak(cur, tk))
                    {
                    }
                    if (tk <= tickbound)
                        continue;
                    Violation v;
                    v.prop = prop;
                    v.op = f.name;
                    v.arch = arch;
                    v.elem = elem;
                    v.lanes = (int)L;
                    v.lane = 0;
                    v.nin = f.arity;
                    v.out_type = elem;
                    // the lane that drives the loop longest is not known; report the whole batch
                    for (int k = 0; k < f.arity; ++k)
                    {
                        v.in_t[k] = elem;
                        for (size_t l = 0; l < L; ++l)
                            v.in[k].push_back(to_bits<T>((k == 0 ? a : b)[bi * L + l]));
                    }
                    v.oracle = "loop iterations of one call";
                    v.note = tk > 1000 ? "call aborted after 1000 loop iterations (does not terminate in bounded time)" : ("loop iterations " + std::to_string(tk) + " > frozen bound " + std::to_string(tickbound));
                    v.expected = tickbound;
                    v.observed = tk;
                    int fi = classify_math_ticks(v, f, tk);
                    std::string fid = (fi >= 0 && known_open.count(math_findings()[(size_t)fi].id)) ? math_findings()[(size_t)fi].id : "";
                    if (fid.empty())
                        ++unk[ii];
                    record(std::move(v), fid);
                }
                ST.judged += judged;
                std::lock_guard<std::mutex> g(mu);
                per_arch[arch] += n;
                continue;
            }
            // ---- accuracy ----
            for (size_t e = 0; e < n; ++e)
            {
                if (cls[e] == 0)
                {
                    ++skipped;
                    continue;
                }
                if (!aborted.empty() && is_aborted(e))
                {
                    ++ST.aborted_calls;
                    continue; // C14's business
                }
                ++judged;
                if (y[e] >= flo[e] && y[e] <= fhi[e] && (e & 63) != 17)
                    continue; // inside the acceptance interval (every 64th point still takes the full path for the error statistics)
                Judge J = judge<T>(f, (long double)a[e], (long double)b[e], ref[e], y[e]);
                if (J.v == V_PASS)
                {
                    if (J.err > 0)
                        ST.upd_maxerr(J.err);
                    continue;
                }
                if (J.v == V_SKIP)
                    continue;
                // a failure that already falls into an open known-finding class (judged with the first reference)
                // is counted there; everything else goes to the second reference (MPFR, 160 bits), which decides
                if (!known_open.empty())
                {
                    Violation pv;
                    pv.elem = elem;
                    int pfi = classify_math(pv, f, (long double)a[e], (long double)b[e], ref[e], (long double)y[e], J);
                    if (pfi >= 0 && known_open.count(math_findings()[(size_t)pfi].id))
                    {
                        // counted per block without locking; the first point of each (function, type, architecture, class)
                        // still goes through MPFR and is recorded in detail below
                        uint64_t& lc = kf_local[(size_t)pfi * impls.size() + ii];
                        if (lc > 0 || kf_seen[(size_t)pfi * impls.size() + ii].load(std::memory_order_relaxed))
                        {
                            ++lc;
                            continue;
                        }
                        kf_seen[(size_t)pfi * impls.size() + ii] = 1;
                    }
                }
                ++ST.mpfr_checked;
                long double r2 = mpfr_ref(f, (long double)a[e], (long double)b[e]);
                Judge J2 = judge<T>(f, (long double)a[e], (long double)b[e], r2, y[e]);
                if (J2.v == V_FAIL_ACC && std::isfinite(J2.err))
                {
                    // measure the error against MPFR without cancellation in the reference
                    J2.err = mpfr_err_ulp<T>(f, (long double)a[e], (long double)b[e], y[e], f.rule == R_LGAMMA);
                    if (J2.err <= J2.bound)
                        J2.v = V_PASS;
                }
                if (J2.v == V_PASS || J2.v == V_SKIP)
                {
                    ++ST.disagreements;
                    if (J2.v == V_PASS && J2.err > 0)
                        ST.upd_maxerr(J2.err);
                    continue;
                }
                Violation v;
                v.prop = prop;
                v.op = f.name;
                v.arch = arch;
                v.elem = elem;
                v.lanes = (int)L;
                v.lane = (int)(e % L);
                v.nin = f.arity;
                v.out_type = elem;
                v.out_slot = f.out_slot;
                size_t b0 = e - e % L;
                for (int k = 0; k < f.arity; ++k)
                {
                    v.in_t[k] = elem;
                    for (size_t l = 0; l < L; ++l)
                        v.in[k].push_back(to_bits<T>((k == 0 ? a : b)[b0 + l]));
                }
                T r32 = (T)r2;
                v.expected = to_bits<T>(r32);
                v.observed = to_bits<T>(y[e]);
                char buf[256];
                if (J2.v == V_FAIL_ACC)
                    snprintf(buf, sizeof buf, "x=%.17Lg%s result=%.17Lg exact=%.21Lg error=%.3f ulp > bound %.3f ulp (MPFR-confirmed)", (long double)a[e], f.arity == 2 ? (", y=" + std::to_string((double)b[e])).c_str() : "", (long double)y[e], r2, J2.err, J2.bound);
                else
                    snprintf(buf, sizeof buf, "x=%.17Lg%s result=%.17Lg exact=%.21Lg: outside the normal range the result must keep the sign and saturate to +-inf / >= MAX/16 (overflow side) or <= 16*MIN (underflow side), never NaN", (long double)a[e], f.arity == 2 ? (", y=" + std::to_string((double)b[e])).c_str() : "", (long double)y[e], r2);
                v.note = buf;
                v.oracle = J2.v == V_FAIL_ACC ? "ulp bound (glibc reference, MPFR arbiter)" : "graceful degradation outside the normal range";
                int fi = classify_math(v, f, (long double)a[e], (long double)b[e], r2, (long double)y[e], J2);
                std::string fid = (fi >= 0 && known_open.count(math_findings()[(size_t)fi].id)) ? math_findings()[(size_t)fi].id : "";
                if (fid.empty())
                    ++unk[ii];
                record(std::move(v), fid);
            }
            ST.judged += judged;
            ST.skipped += skipped;
            {
                std::lock_guard<std::mutex> g(mu);
                per_arch[arch] += n;
                if (blk == 0 && order == 0 && ii + 1 == impls.size() && samples.size() < 12)
                {
                    size_t e = std::min<size_t>(n - 1, 100 + samples.size());
                    Sample s;
                    s.op = f.name;
                    s.type = xv_type_name[elem];
                    s.arch = arch;
                    s.param = 0;
                    s.in.push_back(hex(to_bits<T>(a[e]), sizeof(T)));
                    if (f.arity == 2)
                        s.in.push_back(hex(to_bits<T>(b[e]), sizeof(T)));
                    s.expected = hex(to_bits<T>((T)ref[e]), sizeof(T));
                    s.observed = hex(to_bits<T>(y[e]), sizeof(T));
                    samples.push_back(s);
                }
            }
        }
        // fold the block's known-finding counts
        {
            bool any = false;
            for (auto c : kf_local)
                any = any || c;
            if (any)
            {
                std::lock_guard<std::mutex> g(mu);
                for (size_t fi = 0; fi < math_findings().size(); ++fi)
                    for (size_t ii = 0; ii < impls.size(); ++ii)
                    {
                        uint64_t c = kf_local[fi * impls.size() + ii];
                        if (!c)
                            continue;
                        const std::string fidp = math_findings()[fi].id;
                        total += c;
                        by_finding[fidp] += c;
                        by_key[std::string(f.name) + "|" + xv_type_name[elem] + "|" + mods[(size_t)impls[ii].module].arch + "|" + fidp] += c;
                    }
            }
        } });
    states += N * norders;
}


// ---------------------------------------------------------------------------------------------
// C12: special values, domains, exact identities and symmetries
// ---------------------------------------------------------------------------------------------
enum SpecClass
{
    SC_NAN,
    SC_PINF,
    SC_NINF,
    SC_EXACT, // exact value (sign of zero included when the value is a zero and `signed_zero` is set)
};
struct SpecCase
{
    const char* fn;
    double x, y; // y unused for unary functions
    SpecClass cls;
    double value;
};
static const double QNAN = __builtin_nan("");
static const double PINF = __builtin_inf();
static const double HALF_PI = 1.57079632679489661923;
// transcribed from the statement of C12 (and C11 Annex F for the listed items), not from xsimd
static const SpecCase SPEC_TABLE[] = {
    // domain errors -> NaN
    { "log", -1, 0, SC_NAN, 0 }, { "log", -PINF, 0, SC_NAN, 0 }, { "log", -1e-30, 0, SC_NAN, 0 }, { "log", -3.0e38, 0, SC_NAN, 0 },
    { "log2", -1, 0, SC_NAN, 0 }, { "log2", -PINF, 0, SC_NAN, 0 }, { "log2", -1e-30, 0, SC_NAN, 0 },
    { "log10", -1, 0, SC_NAN, 0 }, { "log10", -PINF, 0, SC_NAN, 0 }, { "log10", -1e-30, 0, SC_NAN, 0 },
    { "log1p", -1.0000001, 0, SC_NAN, 0 }, { "log1p", -2, 0, SC_NAN, 0 }, { "log1p", -PINF, 0, SC_NAN, 0 }, { "log1p", -1e30, 0, SC_NAN, 0 },
    { "sqrt", -1, 0, SC_NAN, 0 }, { "sqrt", -PINF, 0, SC_NAN, 0 }, { "sqrt", -1e-30, 0, SC_NAN, 0 },
    { "asin", 1.0000001, 0, SC_NAN, 0 }, { "asin", -1.0000001, 0, SC_NAN, 0 }, { "asin", 2, 0, SC_NAN, 0 }, { "asin", PINF, 0, SC_NAN, 0 }, { "asin", -1e30, 0, SC_NAN, 0 },
    { "acos", 1.0000001, 0, SC_NAN, 0 }, { "acos", -1.0000001, 0, SC_NAN, 0 }, { "acos", 2, 0, SC_NAN, 0 }, { "acos", -PINF, 0, SC_NAN, 0 }, { "acos", 1e30, 0, SC_NAN, 0 },
    { "acosh", 0.9999999, 0, SC_NAN, 0 }, { "acosh", 0, 0, SC_NAN, 0 }, { "acosh", -1, 0, SC_NAN, 0 }, { "acosh", -1e10, 0, SC_NAN, 0 }, { "acosh", -PINF, 0, SC_NAN, 0 }, { "acosh", -1e30, 0, SC_NAN, 0 },
    { "atanh", 1.0000001, 0, SC_NAN, 0 }, { "atanh", -1.0000001, 0, SC_NAN, 0 }, { "atanh", 2, 0, SC_NAN, 0 }, { "atanh", PINF, 0, SC_NAN, 0 }, { "atanh", -1e30, 0, SC_NAN, 0 },
    { "pow", -1, 0.5, SC_NAN, 0 }, { "pow", -2, 1.5, SC_NAN, 0 }, { "pow", -0.5, -2.25, SC_NAN, 0 }, { "pow", -1e10, 0.1, SC_NAN, 0 }, { "pow", -3, 1e-3, SC_NAN, 0 },
    // poles and limits
    { "log", 0, 0, SC_NINF, 0 }, { "log", -0.0, 0, SC_NINF, 0 }, { "log2", 0, 0, SC_NINF, 0 }, { "log10", 0, 0, SC_NINF, 0 },
    { "exp", -PINF, 0, SC_EXACT, 0 }, { "exp", PINF, 0, SC_PINF, 0 },
    { "exp2", -PINF, 0, SC_EXACT, 0 }, { "exp2", PINF, 0, SC_PINF, 0 }, { "exp10", -PINF, 0, SC_EXACT, 0 }, { "exp10", PINF, 0, SC_PINF, 0 },
    { "atan", PINF, 0, SC_EXACT, HALF_PI }, { "atan", -PINF, 0, SC_EXACT, -HALF_PI },
    { "tanh", PINF, 0, SC_EXACT, 1 }, { "tanh", -PINF, 0, SC_EXACT, -1 },
    { "erf", PINF, 0, SC_EXACT, 1 }, { "erf", -PINF, 0, SC_EXACT, -1 },
    { "erfc", PINF, 0, SC_EXACT, 0 },
    { "tgamma", 0.0, 0, SC_PINF, 0 }, { "tgamma", -0.0, 0, SC_NINF, 0 },
    { "tgamma", -1, 0, SC_NAN, 0 }, { "tgamma", -2, 0, SC_NAN, 0 }, { "tgamma", -3, 0, SC_NAN, 0 }, { "tgamma", -10, 0, SC_NAN, 0 }, { "tgamma", -33, 0, SC_NAN, 0 }, { "tgamma", -34, 0, SC_NAN, 0 }, { "tgamma", -100, 0, SC_NAN, 0 }, { "tgamma", -1e6, 0, SC_NAN, 0 },
    { "lgamma", -1, 0, SC_PINF, 0 }, { "lgamma", -2, 0, SC_PINF, 0 }, { "lgamma", -3, 0, SC_PINF, 0 }, { "lgamma", -10, 0, SC_PINF, 0 }, { "lgamma", -34, 0, SC_PINF, 0 }, { "lgamma", -35, 0, SC_PINF, 0 }, { "lgamma", -100, 0, SC_PINF, 0 }, { "lgamma", -1e6, 0, SC_PINF, 0 },
    { "cbrt", PINF, 0, SC_PINF, 0 }, { "cbrt", -PINF, 0, SC_NINF, 0 },
    // exact identities
    { "exp", 0, 0, SC_EXACT, 1 }, { "exp", -0.0, 0, SC_EXACT, 1 }, { "log", 1, 0, SC_EXACT, 0 }, { "cos", 0, 0, SC_EXACT, 1 }, { "cos", -0.0, 0, SC_EXACT, 1 },
};
static const char* const NAN_ARG_FUNCS[] = { "sqrt", "exp", "exp2", "exp10", "expm1", "log", "log2", "log10", "log1p", "sin", "cos", "tan", "asin", "acos", "atan",
                                              "sinh", "cosh", "tanh", "asinh", "acosh", "atanh", "cbrt", "erf", "erfc", "tgamma", "lgamma", "sincos.sin", "sincos.cos" };

template <class T>
static std::vector<T> companion_values()
{
    // values on both sides of every whole-batch threshold of section 2, plus hostile specials
    std::vector<T> c = { (T)1, (T)0, (T)0.1, (T)0.5, (T)0.6, (T)0.7, (T)2, (T)3, (T)5.5, (T)7, (T)14, (T)30, (T)40, (T)100, (T)250, (T)1e4, (T)1e6, (T)1e10, (T)1e30, (T)1e-30,
                         (T)-0.3, (T)-1, (T)-2.5, (T)-40, (T)-1e10, std::numeric_limits<T>::denorm_min(), std::numeric_limits<T>::max(), -std::numeric_limits<T>::max(),
                         std::numeric_limits<T>::quiet_NaN(), std::numeric_limits<T>::infinity(), -std::numeric_limits<T>::infinity() };
    return c;
}

template <class T>
static int value_class(T v)
{
    if (v != v)
        return 0;
    if (std::isinf(v))
        return v > 0 ? 1 : 2;
    return 3;
}

// Runs one implementation on n elements (n multiple of lanes), with tick cap; returns false if a call was aborted.
template <class T>
static bool run_impl(const MImpl& im, const T* a, const T* b, T* o0, T* o1, size_t n)
{
    const void* in[2] = { a, b };
    void* out[2] = { o0, o1 };
    xv_ctx ctx;
    memset(&ctx, 0, sizeof ctx);
    ctx.tick_cap = 1000;
    ctx.aborted_at = -1;
    im.op->fn(in, out, n, &ctx);
    return ctx.aborted_at < 0;
}

template <class T>
void MathExplorer::run_special()
{
    constexpr int elem = std::is_same<T, float>::value ? XV_F32 : XV_F64;
    const auto comp = companion_values<T>();
    const std::string tname = xv_type_name[elem];
    auto fail = [&](const std::string& fn, const std::string& arch, size_t L, int lane, const std::vector<T>& xa, const std::vector<T>& xb, int arity, T obs, const std::string& note, T expected)
    {
        Violation v;
        v.prop = prop;
        v.op = fn;
        v.arch = arch;
        v.elem = elem;
        v.lanes = (int)L;
        v.lane = lane;
        v.nin = arity;
        v.out_type = elem;
        for (int k = 0; k < arity; ++k)
        {
            v.in_t[k] = elem;
            for (size_t l = 0; l < L; ++l)
                v.in[k].push_back(to_bits<T>((k == 0 ? xa : xb)[l]));
        }
        v.expected = to_bits<T>(expected);
        v.observed = to_bits<T>(obs);
        v.note = note;
        v.oracle = "special value / identity / symmetry (C12)";
        int fi = classify_special(v, fn, (long double)xa[(size_t)lane], (long double)obs);
        std::string fid = (fi >= 0 && known_open.count(math_findings()[(size_t)fi].id)) ? math_findings()[(size_t)fi].id : "";
        record(std::move(v), fid);
    };
    uint64_t cases = 0, judged = 0;
    // ---- (a) the table, every lane position, every companion class ----
    std::vector<SpecCase> table(std::begin(SPEC_TABLE), std::end(SPEC_TABLE));
    for (const char* fn : NAN_ARG_FUNCS)
    {
        table.push_back({ fn, QNAN, 0, SC_NAN, 0 });
        table.push_back({ fn, -QNAN, 0, SC_NAN, 0 });
    }
    for (const char* fn : { "atan2", "hypot", "pow" })
    {
        table.push_back({ fn, QNAN, 2.5, SC_NAN, 0 });
        table.push_back({ fn, 2.5, QNAN, SC_NAN, 0 });
    }
    {
        // pow of a negative base with the LARGEST non-integer exponents of the type (the is_flint / is_odd tests of the
        // fix-up work next to 2^(mantissa bits)): k + 0.5 just below 2^(p-1) and 2^p, p = 23 / 52
        const int p = std::is_same<T, float>::value ? 23 : 52;
        for (double y : { std::ldexp(1.0, p - 1) + 0.5, std::ldexp(1.0, p) - 0.5, std::ldexp(1.0, p - 2) + 0.25, -(std::ldexp(1.0, p - 1) + 0.5) })
            for (double x : { -1.0, -2.0, -0.5 })
                table.push_back({ "pow", x, y, SC_NAN, 0 });
    }
    for (auto& sc : table)
    {
        const MFun* f = find_mfun(sc.fn);
        if (!f)
            continue;
        if (!only.empty() && !only.count(f->name))
            continue;
        auto impls = impls_of(f->impl, elem, "M");
        T sx = (T)sc.x, sy = (T)sc.y;
        if (std::is_same<T, float>::value && sc.x == 1.0000001)
            sx = std::nextafter((T)1, (T)2);
        if (std::is_same<T, float>::value && sc.x == -1.0000001)
            sx = std::nextafter((T)-1, (T)-2);
        if (std::is_same<T, float>::value && sc.x == 0.9999999)
            sx = std::nextafter((T)1, (T)0);
        if (std::is_same<T, double>::value && (sc.x == 1.0000001 || sc.x == -1.0000001 || sc.x == 0.9999999))
            sx = sc.x > 0 ? (sc.x > 1 ? std::nextafter((T)1, (T)2) : std::nextafter((T)1, (T)0)) : std::nextafter((T)-1, (T)-2);
        // signalling NaN payload variant for NaN arguments is covered by the lattice relations below
        for (auto& im : impls)
        {
            const size_t L = (size_t)im.op->lanes;
            const std::string& arch = mods[(size_t)im.module].arch;
            std::vector<T> xa(L), xb(L), o0(L), o1(L);
            for (size_t cc = 0; cc <= comp.size(); ++cc)
                for (size_t k = 0; k < L; ++k)
                {
                    for (size_t l = 0; l < L; ++l)
                    {
                        T cv = cc < comp.size() ? comp[cc] : comp[(l + k) % comp.size()]; // last class: rotation of everything
                        xa[l] = l == k ? sx : cv;
                        xb[l] = l == k ? sy : (f->arity == 2 ? cv : (T)0);
                    }
                    ++cases;
                    if (!run_impl<T>(im, xa.data(), xb.data(), o0.data(), o1.data(), L))
                        continue; // C14's business
                    ++judged;
                    T y = (f->out_slot ? o1 : o0)[k];
                    bool ok = true;
                    T want = (T)sc.value;
                    switch (sc.cls)
                    {
                    case SC_NAN:
                        ok = y != y;
                        want = std::numeric_limits<T>::quiet_NaN();
                        break;
                    case SC_PINF:
                        ok = std::isinf(y) && y > 0;
                        want = std::numeric_limits<T>::infinity();
                        break;
                    case SC_NINF:
                        ok = std::isinf(y) && y < 0;
                        want = -std::numeric_limits<T>::infinity();
                        break;
                    case SC_EXACT:
                        ok = y == want; // numerically (a zero of either sign for a zero limit)
                        break;
                    }
                    if (!ok)
                    {
                        char buf[200];
                        snprintf(buf, sizeof buf, "%s(%.9g%s) in lane %zu (companions class %zu) = %.9g, expected %s%.9g", sc.fn, (double)sx, f->arity == 2 ? (", " + std::to_string((double)sy)).c_str() : "", k, cc, (double)y,
                                 sc.cls == SC_NAN ? "NaN " : "", (double)want);
                        fail(f->name, arch, L, (int)k, xa, xb, f->arity, y, buf, want);
                    }
                }
            std::lock_guard<std::mutex> g(mu);
            per_arch[arch] += (comp.size() + 1) * L;
        }
    }
    states += cases;
    // ---- (b) relations over the unary argument space ----
    // (thorough, float32: the lattice on every architecture, then all 2^32 arguments on the --full-archs subset)
    std::atomic<uint64_t> rjudged { 0 };
    const bool big = thorough && std::is_same<T, float>::value && !full_archs.empty();
    for (int pass = 0; pass < (big ? 2 : 1); ++pass)
    {
    Space<T> S = unary_space<T>(big ? pass == 1 : thorough, seed);
    const uint64_t N = S.size();
    const size_t BLK = 1u << 14;
    const uint64_t nblocks = (N + BLK - 1) / BLK;
    struct Rel
    {
        std::string name; // reported operation name
        const char* opA;
        int slotA;
        const char* opB;
        int slotB;
        int kind; // 0: B(x) == A(x) bitwise; 1: odd A(-x) == -A(x); 2: even A(-x) == A(x); 3: pow(x, +-0) == 1
    };
    std::vector<Rel> rels = {
        { "sincos.sin==sin", "sincos", 0, "sin", 0, 0 }, { "sincos.cos==cos", "sincos", 1, "cos", 0, 0 }, { "fabs==abs", "fabs", 0, "abs", 0, 0 }, { "rint==nearbyint", "rint", 0, "nearbyint", 0, 0 },
        { "pow(x,0)==1", "pow", 0, "pow", 0, 3 },
    };
    for (auto& f : mfuns())
        if (f.arity == 1 && (f.odd || f.even))
            rels.push_back({ std::string(f.name) + (f.odd ? ":odd" : ":even"), f.impl, 0, f.impl, 0, f.odd ? 1 : 2 });
    notes.push_back(std::string("relations<") + tname + ">: " + S.label + " (" + std::to_string(N) + " points)" + (big && pass == 1 ? " on the --full-archs subset" : ""));
    for (auto& R : rels)
    {
        if (!only.empty() && !only.count(R.name) && !only.count(R.opA))
            continue;
        auto IA = impls_of(R.opA, elem, "M");
        auto IB = impls_of(R.opB, elem, "M");
        if (big && pass == 1)
        {
            IA = only_full(IA);
            IB = only_full(IB);
        }
        if (IA.empty() || IA.size() != IB.size())
            continue;
        std::vector<std::atomic<uint64_t>> unk(IA.size());
        for (auto& u : unk)
            u = 0;
        parallel_for(nblocks, nthreads, [&](int, uint64_t blk)
                     {
            if (expired)
                return;
            if (deadline != 0 && now_s() > deadline)
            {
                expired = true;
                return;
            }
            const size_t n = (size_t)std::min<uint64_t>(BLK, N - blk * BLK);
            std::vector<T> a(BLK), b(BLK), oa0(BLK), oa1(BLK), ob0(BLK), ob1(BLK);
            for (size_t e = 0; e < BLK; ++e)
            {
                a[e] = e < n ? tval<T>(S.at(blk * BLK + e)) : (T)1;
                b[e] = (R.kind == 1 || R.kind == 2) ? -a[e] : (R.kind == 3 ? ((e & 1) ? (T)-0.0 : (T)0.0) : a[e]);
            }
            for (size_t ii = 0; ii < IA.size(); ++ii)
            {
                if (unk[ii] > 2000)
                    continue;
                const size_t L = (size_t)IA[ii].op->lanes;
                const std::string& arch = mods[(size_t)IA[ii].module].arch;
                bool okrun;
                if (R.kind == 3)
                    okrun = run_impl<T>(IA[ii], a.data(), b.data(), oa0.data(), oa1.data(), BLK);
                else if (R.kind == 0)
                    okrun = run_impl<T>(IA[ii], a.data(), a.data(), oa0.data(), oa1.data(), BLK) && run_impl<T>(IB[ii], a.data(), a.data(), ob0.data(), ob1.data(), BLK);
                else
                    okrun = run_impl<T>(IA[ii], a.data(), a.data(), oa0.data(), oa1.data(), BLK) && run_impl<T>(IB[ii], b.data(), b.data(), ob0.data(), ob1.data(), BLK);
                if (!okrun)
                    continue;
                const T* ya = R.slotA ? oa1.data() : oa0.data();
                const T* yb = R.slotB ? ob1.data() : ob0.data();
                uint64_t jd = 0;
                for (size_t e = 0; e < n; ++e)
                {
                    T x = a[e];
                    T got, want;
                    bool ok;
                    if (R.kind == 3)
                    {
                        if (!(std::isfinite(x) && x != 0))
                            continue;
                        got = ya[e];
                        want = (T)1;
                        ok = to_bits<T>(got) == to_bits<T>(want);
                    }
                    else
                    {
                        got = yb[e];
                        want = R.kind == 1 ? -ya[e] : ya[e];
                        ok = to_bits<T>(got) == to_bits<T>(want) || (got != got && want != want);
                    }
                    ++jd;
                    if (ok)
                        continue;
                    size_t b0 = e - e % L;
                    std::vector<T> xa(a.begin() + (long)b0, a.begin() + (long)(b0 + L)), xb(b.begin() + (long)b0, b.begin() + (long)(b0 + L));
                    char buf[220];
                    if (R.kind == 0)
                        snprintf(buf, sizeof buf, "%s: x=%.9g: %.17g vs %.17g (must be bit-identical)", R.name.c_str(), (double)x, (double)ya[e], (double)yb[e]);
                    else if (R.kind == 3)
                        snprintf(buf, sizeof buf, "pow(%.9g, %s0) = %.17g, must be exactly 1", (double)x, (e & 1) ? "-" : "+", (double)got);
                    else
                        snprintf(buf, sizeof buf, "%s: f(%.9g)=%.17g but f(%.9g)=%.17g", R.name.c_str(), (double)x, (double)ya[e], (double)-x, (double)yb[e]);
                    ++unk[ii];
                    fail(R.name, arch, L, (int)(e % L), xa, xb, R.kind == 3 ? 2 : 1, got, buf, want);
                }
                rjudged += jd;
            } });
        states += N;
    }
    }
    if (!stats.count("special<" + tname + ">"))
        stats["special<" + tname + ">"].reset(new FnStats);
    stats["special<" + tname + ">"]->points += cases;
    stats["special<" + tname + ">"]->judged += judged + rjudged;
}

// ---------------------------------------------------------------------------------------------
// C13 (elementary functions): a subject value in every lane among every companion class
// ---------------------------------------------------------------------------------------------
template <class T>
void MathExplorer::run_placement()
{
    constexpr int elem = std::is_same<T, float>::value ? XV_F32 : XV_F64;
    const auto comp = companion_values<T>();
    // subjects: windows (+-2 ulp) at every switch point, both signs, specials, a few values per binade
    std::vector<uint64_t> subj;
    // (thorough: wider windows, every binade of float / every 8th of double with more mantissas, a larger lattice)
    for (double c : SWITCH_POINTS)
        window<T>(subj, (T)c, thorough ? 8 : 2);
    {
        auto L0 = fp_lattice<T>(seed, thorough ? 64 : 8, 0);
        subj.insert(subj.end(), L0.v.begin(), L0.v.end());
        auto Bn = binades<T>(thorough ? 4 : 2, seed, true, std::is_same<T, float>::value ? (thorough ? 1 : 8) : (thorough ? 8 : 64));
        subj.insert(subj.end(), Bn.v.begin(), Bn.v.end());
        for (int k = 1; k <= (thorough ? 360 : 80); ++k)
            window<T>(subj, (T)(k * 0.5), thorough ? 2 : 1);
    }
    dedup_keep_order(subj);
    const size_t NS = subj.size();
    const size_t NC = comp.size() + 1;
    for (auto& f : mfuns())
    {
        if (f.arity != 1)
            continue;
        if (!only.empty() && !only.count(f.name))
            continue;
        auto impls = impls_of(f.impl, elem, "M");
        if (impls.empty())
            continue;
        const std::string fkey = std::string(f.name) + "<" + xv_type_name[elem] + ">";
        if (!stats.count(fkey))
            stats[fkey].reset(new FnStats);
        FnStats& ST = *stats[fkey];
        notes.push_back(fkey + ": " + std::to_string(NS) + " subject values x every lane x " + std::to_string(NC) + " companion classes, each next to the broadcast batch");
        std::vector<std::atomic<uint64_t>> unk(impls.size());
        for (auto& u : unk)
            u = 0;
        parallel_for(NS, nthreads, [&](int, uint64_t si)
                     {
            if (expired)
                return;
            if (deadline != 0 && now_s() > deadline)
            {
                expired = true;
                return;
            }
            const T sx = tval<T>(subj[si]);
            long double exact = std::is_same<T, float>::value ? (long double)f.r1((double)sx) : f.q1((long double)sx);
            for (size_t ii = 0; ii < impls.size(); ++ii)
            {
                if (unk[ii] > 500)
                    continue;
                const MImpl& im = impls[ii];
                const size_t L = (size_t)im.op->lanes;
                const std::string& arch = mods[(size_t)im.module].arch;
                // one call: [broadcast batch][placed batches for every lane and class]
                const size_t nb = 1 + L * NC;
                std::vector<T> a(nb * L), z(nb * L, (T)0), o0(nb * L), o1(nb * L);
                for (size_t l = 0; l < L; ++l)
                    a[l] = sx;
                for (size_t cc = 0; cc < NC; ++cc)
                    for (size_t k = 0; k < L; ++k)
                    {
                        size_t bi = 1 + cc * L + k;
                        for (size_t l = 0; l < L; ++l)
                            a[bi * L + l] = l == k ? sx : (cc < comp.size() ? comp[cc] : comp[(l + k) % comp.size()]);
                    }
                if (!run_impl<T>(im, a.data(), z.data(), o0.data(), o1.data(), nb * L))
                {
                    ++ST.aborted_calls;
                    continue;
                }
                const T* y = f.out_slot ? o1.data() : o0.data();
                const T yb = y[0];
                ST.points += nb;
                // all lanes of the broadcast batch must be identical
                for (size_t l = 1; l < L; ++l)
                    if (to_bits<T>(y[l]) != to_bits<T>(yb) && !(y[l] != y[l] && yb != yb))
                    {
                        Violation v;
                        v.prop = prop;
                        v.op = f.name;
                        v.arch = arch;
                        v.elem = elem;
                        v.lanes = (int)L;
                        v.lane = (int)l;
                        v.nin = 1;
                        v.in_t[0] = elem;
                        v.out_type = elem;
                        for (size_t q = 0; q < L; ++q)
                            v.in[0].push_back(to_bits<T>(sx));
                        v.expected = to_bits<T>(yb);
                        v.observed = to_bits<T>(y[l]);
                        v.oracle = "broadcast batch: identical results in all lanes";
                        v.note = "broadcast(" + std::to_string((double)sx) + "): lane " + std::to_string(l) + " differs from lane 0";
                        ++unk[ii];
                        record(std::move(v), "");
                        break;
                    }
                const int cb = value_class<T>(yb);
                const bool in_domain = std::isfinite((double)sx) && std::fpclassify(sx) != FP_SUBNORMAL && sx != 0 && exact == exact;
                for (size_t cc = 0; cc < NC; ++cc)
                    for (size_t k = 0; k < L; ++k)
                    {
                        const size_t bi = 1 + cc * L + k;
                        const T yk = y[bi * L + k];
                        ++ST.judged;
                        std::string why;
                        Judge J { V_PASS, 0, 0 };
                        if (value_class<T>(yk) != cb)
                            why = "special-value class differs from the broadcast result";
                        else if (in_domain && cb == 3)
                        {
                            J = judge<T>(f, (long double)sx, 0, exact, yk);
                            if ((J.v == V_FAIL_ACC || J.v == V_FAIL_GRACE) && !known_open.empty())
                            {
                                // already inside an open known-finding class (first reference): counted there without MPFR
                                Violation pv;
                                pv.elem = elem;
                                int pfi = classify_math(pv, f, (long double)sx, 0, exact, (long double)yk, J);
                                if (pfi >= 0 && known_open.count(math_findings()[(size_t)pfi].id))
                                {
                                    const std::string fidp = math_findings()[(size_t)pfi].id;
                                    std::lock_guard<std::mutex> g(mu);
                                    uint64_t& c = by_key[std::string(f.name) + "|" + xv_type_name[elem] + "|" + arch + "|" + fidp];
                                    if (c >= 1)
                                    {
                                        ++c;
                                        ++total;
                                        ++by_finding[fidp];
                                        continue;
                                    }
                                }
                            }
                            if (J.v == V_FAIL_ACC || J.v == V_FAIL_GRACE)
                            {
                                long double r2 = mpfr_ref(f, (long double)sx, 0);
                                J = judge<T>(f, (long double)sx, 0, r2, yk);
                                if (J.v == V_FAIL_ACC && std::isfinite(J.err))
                                {
                                    J.err = mpfr_err_ulp<T>(f, (long double)sx, 0, yk, f.rule == R_LGAMMA);
                                    if (J.err <= J.bound)
                                        J.v = V_PASS;
                                }
                                if (J.v == V_FAIL_ACC || J.v == V_FAIL_GRACE)
                                    why = "outside the function's accuracy bound among these companions";
                            }
                        }
                        if (why.empty())
                            continue;
                        Violation v;
                        v.prop = prop;
                        v.op = f.name;
                        v.arch = arch;
                        v.elem = elem;
                        v.lanes = (int)L;
                        v.lane = (int)k;
                        v.nin = 1;
                        v.in_t[0] = elem;
                        v.out_type = elem;
                        v.out_slot = f.out_slot;
                        for (size_t q = 0; q < L; ++q)
                            v.in[0].push_back(to_bits<T>(a[bi * L + q]));
                        v.expected = to_bits<T>(yb);
                        v.observed = to_bits<T>(yk);
                        v.oracle = "lane k of f(X) versus f(broadcast(X[k])) (C13)";
                        char buf[260];
                        snprintf(buf, sizeof buf, "x=%.17Lg in lane %zu, companions class %zu: result=%.17Lg, broadcast result=%.17Lg, exact=%.21Lg: %s (error %.3f ulp, bound %.3f)", (long double)sx, k, cc, (long double)yk, (long double)yb, exact, why.c_str(), J.err, J.bound);
                        v.note = buf;
                        int fi = classify_math(v, f, (long double)sx, 0, exact, (long double)yk, J);
                        std::string fid = (fi >= 0 && known_open.count(math_findings()[(size_t)fi].id)) ? math_findings()[(size_t)fi].id : "";
                        if (fid.empty())
                            ++unk[ii];
                        record(std::move(v), fid);
                    }
                std::lock_guard<std::mutex> g(mu);
                per_arch[arch] += nb * L;
            } });
        states += NS * NC;
    }
}


// ---------------------------------------------------------------------------------------------
// C16: complex batches against std::complex<long double> on a log-polar grid
// ---------------------------------------------------------------------------------------------
#include <complex>
typedef std::complex<long double> cld;
struct CFun
{
    const char* name;
    int kind; // as in harness/h_complex.cpp
    double eps_mult; // tolerance in eps of max(|result|, 1); 0 = exact
    int rule; // 0 unary/plain, 1 product-like (operands must keep products in range), 2 tan/tanh box, 3 fused (scale incl. |a b| and |c|), 4 exp-like
    cld (*ref)(cld a, cld b, cld c, long double y);
};
static cld r_log2(cld a) { return std::log(a) / logl(2.0L); }
static const CFun CFUNS[] = {
    { "c.add", 1, 8, 0, [](cld a, cld b, cld, long double) { return a + b; } },
    { "c.sub", 1, 8, 0, [](cld a, cld b, cld, long double) { return a - b; } },
    { "c.mul", 1, 8, 1, [](cld a, cld b, cld, long double) { return a * b; } },
    { "c.div", 1, 8, 1, [](cld a, cld b, cld, long double) { return a / b; } },
    { "c.fma", 6, 8, 3, [](cld a, cld b, cld c, long double) { return a * b + c; } },
    { "c.fms", 6, 8, 3, [](cld a, cld b, cld c, long double) { return a * b - c; } },
    { "c.fnma", 6, 8, 3, [](cld a, cld b, cld c, long double) { return -(a * b) + c; } },
    { "c.fnms", 6, 8, 3, [](cld a, cld b, cld c, long double) { return -(a * b) - c; } },
    { "c.eq", 3, 0, 0, [](cld a, cld b, cld, long double) { return cld(a == b ? 1 : 0, 0); } },
    { "c.ne", 3, 0, 0, [](cld a, cld b, cld, long double) { return cld(a != b ? 1 : 0, 0); } },
    { "c.neg", 0, 0, 0, [](cld a, cld, cld, long double) { return -a; } },
    { "c.real", 2, 0, 0, [](cld a, cld, cld, long double) { return cld(a.real(), 0); } },
    { "c.imag", 2, 0, 0, [](cld a, cld, cld, long double) { return cld(a.imag(), 0); } },
    { "c.conj", 0, 0, 0, [](cld a, cld, cld, long double) { return std::conj(a); } },
    { "c.proj", 0, 0, 0, [](cld a, cld, cld, long double) { return (std::isinf(a.real()) || std::isinf(a.imag())) ? cld(std::numeric_limits<long double>::infinity(), copysignl(0.0L, a.imag())) : a; } }, // std::proj
    // real-batch overloads: the operand is the real part alone (imaginary part +0)
    { "c.real.realarg", 2, 0, 0, [](cld a, cld, cld, long double) { return cld(a.real(), 0); } },
    { "c.imag.realarg", 2, 0, 0, [](cld, cld, cld, long double) { return cld(0, 0); } },
    { "c.conj.realarg", 0, 8, 0, [](cld a, cld, cld, long double) { return cld(a.real(), 0); } }, // the zero imaginary part may carry either sign
    { "c.proj.realarg", 0, 8, 0, [](cld a, cld, cld, long double) { return cld(std::isinf(a.real()) ? std::numeric_limits<long double>::infinity() : a.real(), 0); } },
    { "c.norm.realarg", 2, 32, 1, [](cld a, cld, cld, long double) { return cld(a.real() * a.real(), 0); } },
    { "c.arg.realarg", 2, 32, 0, [](cld a, cld, cld, long double) { return cld(std::signbit(a.real()) ? 3.14159265358979323846264338327950288L : 0.0L, 0); } },
    { "c.norm", 2, 32, 1, [](cld a, cld, cld, long double) { return cld(std::norm(a), 0); } },
    { "c.abs", 2, 32, 0, [](cld a, cld, cld, long double) { return cld(std::abs(a), 0); } },
    { "c.arg", 2, 32, 0, [](cld a, cld, cld, long double) { return cld(std::arg(a), 0); } },
    { "c.polar", 5, 32, 0, [](cld a, cld, cld, long double y) { return std::polar(a.real(), y); } },
    { "c.exp", 0, 8, 4, [](cld a, cld, cld, long double) { return std::exp(a); } },
    { "c.expm1", 0, 8, 4, [](cld a, cld, cld, long double) { return cld(expm1l(a.real()) * cosl(a.imag()) - 2 * sinl(a.imag() / 2) * sinl(a.imag() / 2), expl(a.real()) * sinl(a.imag())); } },
    { "c.log", 0, 32, 0, [](cld a, cld, cld, long double) { return std::log(a); } },
    { "c.log2", 0, 32, 0, [](cld a, cld, cld, long double) { return r_log2(a); } },
    { "c.log10", 0, 32, 0, [](cld a, cld, cld, long double) { return std::log10(a); } },
    { "c.sqrt", 0, 8, 0, [](cld a, cld, cld, long double) { return std::sqrt(a); } },
    { "c.sin", 0, 8, 4, [](cld a, cld, cld, long double) { return std::sin(a); } },
    { "c.cos", 0, 8, 4, [](cld a, cld, cld, long double) { return std::cos(a); } },
    { "c.sinh", 0, 8, 4, [](cld a, cld, cld, long double) { return std::sinh(a); } },
    { "c.cosh", 0, 8, 4, [](cld a, cld, cld, long double) { return std::cosh(a); } },
    { "c.tan", 0, 32, 2, [](cld a, cld, cld, long double) { return std::tan(a); } },
    { "c.tanh", 0, 32, 2, [](cld a, cld, cld, long double) { return std::tanh(a); } },
    { "c.pow", 4, 32, 1, [](cld a, cld, cld, long double y) { return std::pow(a, cld(y, 0)); } },
    // other spellings of the complex batch class
    { "c.incr.op", 0, 8, 0, [](cld a, cld, cld, long double) { return a + cld(1, 0); } },
    { "c.decr.op", 0, 8, 0, [](cld a, cld, cld, long double) { return a - cld(1, 0); } },
    { "c.add.real", 1, 8, 0, [](cld a, cld b, cld, long double) { return a + cld(b.real(), 0); } },
    { "c.mul.real", 1, 8, 1, [](cld a, cld b, cld, long double) { return a * cld(b.real(), 0); } },
    { "c.sub.assign", 1, 8, 0, [](cld a, cld b, cld, long double) { return a - b; } },
    { "c.div.assign", 1, 8, 1, [](cld a, cld b, cld, long double) { return a / b; } },
    { "c.add.assign", 1, 8, 0, [](cld a, cld b, cld, long double) { return a + b; } },
    { "c.mul.assign", 1, 8, 1, [](cld a, cld b, cld, long double) { return a * b; } },
    { "c.selfadd", 0, 8, 0, [](cld a, cld, cld, long double) { return a + a; } },
    { "c.selfsub", 0, 8, 0, [](cld a, cld, cld, long double) { return cld(0, 0); } },
    { "c.selfmul", 0, 8, 1, [](cld a, cld, cld, long double) { return a * a; } },
    { "c.selfmul.op", 0, 8, 1, [](cld a, cld, cld, long double) { return a * a; } },
    { "c.selfdiv", 0, 8, 1, [](cld a, cld, cld, long double) { return cld(1, 0); } },
    { "c.selffma", 0, 8, 3, [](cld a, cld, cld, long double) { return a * a + a; } },
    { "c.mul.assign.real", 1, 8, 1, [](cld a, cld b, cld, long double) { return a * cld(b.real(), 0); } },
    { "c.div.real", 1, 8, 1, [](cld a, cld b, cld, long double) { return a / cld(b.real(), 0); } },
    { "c.sub.real.l", 1, 8, 0, [](cld a, cld b, cld, long double) { return cld(b.real(), 0) - a; } },
    { "c.get", 0, 0, 0, [](cld a, cld, cld, long double) { return a; } },
    { "c.broadcast", 0, 0, 0, [](cld a, cld, cld, long double) { return a; } },
    { "c.mul.scalar", 0, 8, 1, [](cld a, cld, cld, long double) { return a * cld(2, -3); } },
    // interleaved memory forms: element i of an array of std::complex<T> <-> lane i of real() / imag(), exactly
    { "c.load_unaligned", 0, 0, 0, [](cld a, cld, cld, long double) { return a; } },
    { "c.load_aligned", 0, 0, 0, [](cld a, cld, cld, long double) { return a; } },
    { "c.store_unaligned", 0, 0, 0, [](cld a, cld, cld, long double) { return a; } },
    { "c.store_aligned", 0, 0, 0, [](cld a, cld, cld, long double) { return a; } },
    { "c.sincos", 7, 8, 4, [](cld a, cld, cld, long double) { return std::sin(a); } },
};

template <class T>
static std::vector<std::pair<T, T>> cgrid(int kstep, int nang, uint64_t seed, bool with_zero, int nseed = 64, bool box = true)
{
    std::vector<std::pair<T, T>> g;
    const int K = std::is_same<T, float>::value ? 40 : 300;
    const long double PI = 3.14159265358979323846264338327950288L;
    for (int k = -K; k <= K; k += kstep)
    {
        T r = (T)std::ldexp(1.0L, k);
        for (int j = 0; j < nang; ++j)
        {
            long double th = 2 * PI * j / nang;
            g.push_back({ (T)(r * cosl(th)), (T)(r * sinl(th)) });
        }
        // the four axes with both signs of the zero part, and one ulp off each axis
        T tiny = r * std::numeric_limits<T>::epsilon();
        for (T sgn : { (T)1, (T)-1 })
        {
            g.push_back({ sgn * r, (T)0.0 });
            g.push_back({ sgn * r, (T)-0.0 });
            g.push_back({ (T)0.0, sgn * r });
            g.push_back({ (T)-0.0, sgn * r });
            g.push_back({ sgn * r, tiny });
            g.push_back({ sgn * r, -tiny });
            g.push_back({ tiny, sgn * r });
            g.push_back({ -tiny, sgn * r });
        }
    }
    if (with_zero)
    {
        g.push_back({ (T)0, (T)0 });
        g.push_back({ (T)-0.0, (T)0 });
        g.push_back({ (T)0, (T)-0.0 });
    }
    for (T a : { (T)0.5, (T)1.5, (T)3, (T)10, (T)19.5 })
        for (T b : { (T)0.25, (T)1, (T)2.5, (T)7, (T)20 })
        {
            if (!box)
                break;
            g.push_back({ a, b });
            g.push_back({ -a, b });
            g.push_back({ a, -b });
            g.push_back({ -b, -a });
        }
    uint64_t s = seed * 313 + 5;
    for (int k = 0; k < nseed; ++k)
    {
        uint64_t r1 = splitmix64(s), r2 = splitmix64(s);
        long double m1 = 1.0L + (long double)(r1 >> 12) / (long double)(1ull << 52), m2 = 1.0L + (long double)(r2 >> 12) / (long double)(1ull << 52);
        g.push_back({ (T)(std::ldexp(m1, (int)(r1 % 20) - 10) * ((r1 >> 40 & 1) ? -1 : 1)), (T)(std::ldexp(m2, (int)(r2 % 20) - 10) * ((r2 >> 40 & 1) ? -1 : 1)) });
    }
    return g;
}

// full-range operands for the exact operations (neg, real, imag, conj, proj, ==, !=): every pair of components from
// {0, denorm_min, MIN, 1, 1.5, just above sqrt(MAX), MAX/2, MAX, inf} with both signs - finite values whose squared
// modulus overflows or underflows, and infinite components (proj is defined by them)
template <class T>
static std::vector<std::pair<T, T>> cextreme()
{
    std::vector<T> A;
    const int h = std::numeric_limits<T>::max_exponent / 2;
    for (T v : { (T)0, std::numeric_limits<T>::denorm_min(), std::numeric_limits<T>::min(), (T)1, (T)1.5, (T)std::ldexp((T)1, h + 1), (T)std::ldexp((T)1.25, h + 2),
                 (T)std::ldexp((T)1.75, -h - 2), std::numeric_limits<T>::max() / 2, std::numeric_limits<T>::max(), std::numeric_limits<T>::infinity() })
    {
        A.push_back(v);
        A.push_back(-v);
    }
    std::vector<std::pair<T, T>> g;
    for (T a : A)
        for (T b : A)
            g.push_back({ a, b });
    return g;
}

template <class T>
void MathExplorer::run_complex()
{
    constexpr int elem = std::is_same<T, float>::value ? XV_F32 : XV_F64;
    const long double EPS = std::numeric_limits<T>::epsilon();
    const long double MAX = mlim<T>::MAX, MIN = mlim<T>::MIN;
    const long double PLIM_HI = sqrtl(MAX) / 4, PLIM_LO = sqrtl(MIN) * 4;
    constexpr bool FL = std::is_same<T, float>::value;
    // thorough: every binade (float) / every 4th (double) with 256 arguments for the unary functions, a 2x denser
    // modulus ladder and 20 arguments for the pairs, a 1.5x denser ladder and 6 arguments for the triples
    auto G1 = thorough ? cgrid<T>(FL ? 1 : 4, 256, seed, true, 256) : cgrid<T>(FL ? 2 : 12, 64, seed, true);
    auto G2 = thorough ? cgrid<T>(FL ? 2 : 15, 32, seed, true, 128) : cgrid<T>(FL ? 8 : 60, 12, seed, true);
    auto G3 = thorough ? cgrid<T>(FL ? 8 : 60, 8, seed, false, 12, false) : cgrid<T>(FL ? 20 : 150, 4, seed, false, 8, false);
    const std::vector<long double> YS = { -3, -2, -1, -0.5L, 0.5L, 1, 2, 3, 2.5L, 10, 0.3333333L };
    for (auto& f : CFUNS)
    {
        if (!only.empty() && !only.count(f.name))
            continue;
        auto impls = impls_of(f.name, elem, "C16");
        if (impls.empty())
            continue;
        // operand tuples for this function
        struct Tup
        {
            T a0, a1, b0, b1, c0, c1;
        };
        std::vector<Tup> tups;
        if (f.kind == 0 || f.kind == 2 || f.kind == 7)
            for (auto& z : G1)
                tups.push_back({ z.first, z.second, 0, 0, 0, 0 });
        else if (f.kind == 1 || f.kind == 3)
            for (auto& z : G2)
                for (auto& w : G2)
                    tups.push_back({ z.first, z.second, w.first, w.second, 0, 0 });
        else if (f.kind == 6)
            for (auto& z : G3)
                for (auto& w : G3)
                    for (auto& u : G3)
                        tups.push_back({ z.first, z.second, w.first, w.second, u.first, u.second });
        else if (f.kind == 4)
            for (auto& z : G2)
                for (long double y : YS)
                    tups.push_back({ z.first, z.second, (T)y, 0, 0, 0 });
        else if (f.kind == 5)
            for (auto& z : G2)
                for (int j = -64; j <= 64; ++j)
                    tups.push_back({ (T)fabsl(z.first), (T)(j * 0.0981747704246810387L + (j % 3) * 0.01L), 0, 0, 0, 0 });
        if (f.kind == 3) // equality: add identical pairs
            for (auto& z : G1)
                tups.push_back({ z.first, z.second, z.first, z.second, 0, 0 });
        const bool exact_fn = f.eps_mult == 0 && f.rule == 0;
        if (exact_fn)
        {
            const auto GX = cextreme<T>();
            for (size_t i = 0; i < GX.size(); ++i)
            {
                const auto& z = GX[i];
                if (f.kind == 3)
                {
                    const auto& u = GX[(i + 1) % GX.size()];
                    const auto& w = GX[(i + 22) % GX.size()];
                    tups.push_back({ z.first, z.second, z.first, z.second, 0, 0 });
                    tups.push_back({ z.first, z.second, z.first, u.second, 0, 0 }); // the imaginary parts differ (or are the two zeros)
                    tups.push_back({ z.first, z.second, w.first, z.second, 0, 0 }); // the real parts differ (or are the two zeros)
                }
                else
                    tups.push_back({ z.first, z.second, 0, 0, 0, 0 });
            }
        }
        while (tups.size() % 64)
            tups.push_back(tups[tups.size() % 7]);
        const size_t N = tups.size();
        const std::string fkey = std::string(f.name) + "<" + xv_type_name[elem] + ">";
        if (!stats.count(fkey))
            stats[fkey].reset(new FnStats);
        FnStats& ST = *stats[fkey];
        notes.push_back(fkey + ": " + std::to_string(N) + " operand tuples of the log-polar grid (moduli 2^k, 64 arguments, axes with both signs of zero, +-1 ulp off the axes, seed points)");
        const size_t BLK = 1u << 13;
        const uint64_t nblocks = (N + BLK - 1) / BLK;
        std::vector<std::atomic<uint64_t>> unk(impls.size());
        for (auto& u : unk)
            u = 0;
        parallel_for(nblocks, nthreads, [&](int, uint64_t blk)
                     {
            const size_t n = (size_t)std::min<uint64_t>(BLK, N - blk * BLK);
            std::vector<T> in[6], out[4];
            for (auto& v : in)
                v.assign(BLK, (T)1);
            for (auto& v : out)
                v.assign(BLK, (T)0);
            for (size_t e = 0; e < n; ++e)
            {
                const Tup& t = tups[blk * BLK + e];
                in[0][e] = t.a0;
                in[1][e] = t.a1;
                in[2][e] = t.b0;
                in[3][e] = t.b1;
                in[4][e] = t.c0;
                in[5][e] = t.c1;
            }
            ST.points += n;
            // reference values and premises, once per block
            std::vector<cld> W(n), W2(n);
            std::vector<char> use(n, 0);
            for (size_t e = 0; e < n; ++e)
            {
                const Tup& t = tups[blk * BLK + e];
                cld a(t.a0, t.a1), b(t.b0, t.b1), c(t.c0, t.c1);
                long double y = f.kind == 4 ? (long double)t.b0 : (f.kind == 5 ? (long double)t.a1 : 0);
                if (f.kind == 5)
                    a = cld(t.a0, 0);
                if (!strcmp(f.name, "c.selffma"))
                    b = c = a; // the same object in every argument slot
                if (strstr(f.name, ".realarg"))
                    a = cld(a.real(), 0); // the overloads for real batches see the real part only
                if (strstr(f.name, ".real"))
                    b = cld(b.real(), 0); // only the real part of the second operand takes part: the range premise is about it
                auto inrange = [&](cld z)
                {
                    long double m = std::abs(z);
                    return m == 0 || (m < PLIM_HI && m > PLIM_LO);
                };
                if (f.rule == 1 || f.rule == 3)
                    if (!inrange(a) || (f.kind != 4 && !inrange(b)) || (f.rule == 3 && !inrange(c)))
                        continue;
                const std::string fname = f.name;
                if ((fname == "c.div" || fname == "c.div.assign") && std::abs(b) == 0)
                    continue;
                if (fname == "c.div.real" && b.real() == 0)
                    continue;
                if (fname == "c.selfdiv" && std::abs(a) == 0)
                    continue;
                if (f.rule == 2 && (fabsl(a.real()) > 20 || fabsl(a.imag()) > 20))
                    continue;
                if (fname == "c.pow" && std::abs(a) == 0)
                    continue;
                if ((fname == "c.log" || fname == "c.log2" || fname == "c.log10" || fname == "c.arg" || fname == "c.arg.realarg") && std::abs(a) == 0)
                    continue;
                cld w = f.ref(a, b, c, y);
                const long double mw = std::abs(w);
                if (!exact_fn && (!(std::isfinite((double)w.real()) && std::isfinite((double)w.imag())) || mw > MAX / 4))
                    continue; // (the exact operations are judged on the whole range, infinite components included)
                if (f.rule == 4 && fmaxl(fabsl(a.real()), fabsl(a.imag())) > (std::is_same<T, float>::value ? 80 : 700))
                    continue;
                W[e] = w;
                W2[e] = f.kind == 7 ? std::cos(a) : cld(0, 0);
                use[e] = 1;
            }
            for (size_t ii = 0; ii < impls.size(); ++ii)
            {
                if (unk[ii] > 500)
                    continue;
                const MImpl& im = impls[ii];
                const size_t L = (size_t)(im.op->lanes % 1000);
                const std::string& arch = mods[(size_t)im.module].arch;
                const void* ip[6] = { in[0].data(), in[1].data(), in[2].data(), in[3].data(), in[4].data(), in[5].data() };
                void* op[4] = { out[0].data(), out[1].data(), out[2].data(), out[3].data() };
                xv_ctx ctx;
                memset(&ctx, 0, sizeof ctx);
                im.op->fn(ip, op, (n + L - 1) / L * L, &ctx);
                uint64_t jd = 0;
                for (size_t e = 0; e < n; ++e)
                {
                    const Tup& t = tups[blk * BLK + e];
                    cld a(t.a0, t.a1), b(t.b0, t.b1), c(t.c0, t.c1);
                    long double y = f.kind == 4 ? (long double)t.b0 : (f.kind == 5 ? (long double)t.a1 : 0);
                    if (f.kind == 5)
                        a = cld(t.a0, 0);
                    if (!strcmp(f.name, "c.selffma"))
                        b = c = a;
                    if (strstr(f.name, ".realarg"))
                        a = cld(a.real(), 0);
                    if (!use[e])
                        continue;
                    const cld w = W[e], w2 = W2[e];
                    const long double mw = std::abs(w);
                    ++jd;
                    std::string why;
                    if (f.kind == 3)
                    {
                        bool got = ((const uint8_t*)out[0].data())[e] != 0;
                        if (got != (w.real() != 0))
                            why = "comparison of both components";
                    }
                    else
                    {
                        long double scale = mw > 1 ? mw : 1.0L;
                        {
                            // the four arithmetic operations in every spelling: relative to the result's modulus
                            static const char* const ARITH[] = { "c.add", "c.sub", "c.mul", "c.div", "c.selfadd", "c.selfmul" };
                            for (const char* pre : ARITH)
                                if (!strncmp(f.name, pre, strlen(pre)) && (f.name[strlen(pre)] == 0 || f.name[strlen(pre)] == '.'))
                                    scale = mw;
                        }
                        if (f.rule == 3)
                            scale = fmaxl(mw, fmaxl(std::abs(a) * std::abs(b), std::abs(c)));
                        if (!exact_fn && scale < MIN * 16)
                            continue; // result in the subnormal range: outside the claim
                        long double tol = f.eps_mult * EPS * scale;
                        long double ore = out[0][e], oim = (f.kind == 2) ? 0 : (long double)out[1][e];
                        long double dre = fabsl(ore - w.real()), dim = (f.kind == 2) ? 0 : fabsl(oim - w.imag());
                        bool bad = !(dre <= tol) || !(dim <= tol);
                        if (f.eps_mult == 0)
                            bad = !(to_bits<T>((T)w.real()) == to_bits<T>(out[0][e]) || ((T)w.real() == 0 && out[0][e] == 0 && f.kind == 2 && false)) || (f.kind != 2 && to_bits<T>((T)w.imag()) != to_bits<T>(out[1][e]));
                        if (f.kind == 7 && !bad)
                        {
                            long double s2 = std::abs(w2) > 1 ? std::abs(w2) : 1.0L;
                            bad = !(fabsl((long double)out[2][e] - w2.real()) <= f.eps_mult * EPS * s2) || !(fabsl((long double)out[3][e] - w2.imag()) <= f.eps_mult * EPS * s2);
                        }
                        if (bad)
                        {
                            char buf[300];
                            snprintf(buf, sizeof buf, "result (%.9Lg, %.9Lg), std::complex<long double> gives (%.12Lg, %.12Lg): error (%.3Lg, %.3Lg) eps of the scale %.6Lg > %.0f eps", ore, oim, w.real(), w.imag(), dre / (EPS * scale), dim / (EPS * scale), scale, f.eps_mult);
                            why = buf;
                        }
                        else
                            ST.upd_maxerr((double)(fmaxl(dre, dim) / (EPS * scale)));
                    }
                    if (why.empty())
                        continue;
                    Violation v;
                    v.prop = prop;
                    v.op = f.name;
                    v.arch = arch;
                    v.elem = elem;
                    v.lanes = (int)L;
                    v.lane = (int)(e % L);
                    v.nin = f.kind == 6 ? 4 : (f.kind == 0 || f.kind == 2 || f.kind == 7 || f.kind == 5 ? 2 : (f.kind == 4 ? 3 : 4));
                    v.out_type = elem;
                    size_t b0 = e - e % L;
                    for (int k = 0; k < v.nin; ++k)
                    {
                        v.in_t[k] = elem;
                        for (size_t l = 0; l < L; ++l)
                            v.in[k].push_back(to_bits<T>(in[k][b0 + l]));
                    }
                    v.expected = to_bits<T>((T)w.real());
                    v.observed = to_bits<T>(out[0][e]);
                    char hd[200];
                    snprintf(hd, sizeof hd, "%s((%.9Lg, %.9Lg)%s): ", f.name, (long double)t.a0, (long double)t.a1, f.kind == 1 || f.kind == 3 || f.kind == 6 ? (", (" + std::to_string((double)t.b0) + ", " + std::to_string((double)t.b1) + ")").c_str() : (f.kind == 4 || f.kind == 5 ? (", " + std::to_string((double)y)).c_str() : ""));
                    v.note = std::string(hd) + why;
                    v.oracle = "std::complex<long double> within the tolerance of C16";
                    int fi = classify_complex(v, f.name, a, w, cld(out[0][e], f.kind == 2 ? 0 : out[1][e]), y);
                    std::string fid = (fi >= 0 && known_open.count(math_findings()[(size_t)fi].id)) ? math_findings()[(size_t)fi].id : "";
                    if (fid.empty())
                        ++unk[ii];
                    record(std::move(v), fid);
                }
                ST.judged += jd;
                std::lock_guard<std::mutex> g(mu);
                per_arch[arch] += n;
            } });
        states += N;
    }
}

// pow(x, integer): one pseudo-function per exponent type (C14 only: the references are dummies, the loop ticks are judged)
static const std::vector<MFun>& ipow_funs()
{
    static const std::vector<MFun> v = []
    {
        static const d2 zero2 = [](double, double) { return 0.0; };
        static const l2 zero2l = [](long double, long double) { return 0.0L; };
        std::vector<MFun> r;
        for (const char* nm : { "ipow.i16", "ipow.i32", "ipow.i64", "ipow.u16", "ipow.u32", "ipow.u64" })
            r.push_back(MFun { nm, 2, nullptr, zero2, nullptr, zero2l, nullptr, nullptr, 1e30, 1e30, R_POW, 64, 64, false, false, 0, nm });
        return r;
    }();
    return v;
}

template <class T>
void MathExplorer::run_all()
{
    for (auto& f : mfuns())
    {
        if (mode_scalar && (f.arity != 1 || std::string(f.impl) == "sincos"))
            continue;
        if (expired)
            break;
        run_fn<T>(f);
    }
    if (mode_ticks && !expired)
    {
        // C14, pow with an integer exponent: every entry of the exponent table of each integer type (0, +-1, small, 2^k -+ 1,
        // the extremes of the type and their neighbours and halves) x a value alphabet; the square-and-multiply loop
        // makes one hooked iteration per bit of the exponent, so 64 bounds every type
        // the remaining binary functions of the public API (time / termination only; their values belong to other properties)
        if (!expired)
        {
            static const d2 zero2 = [](double, double) { return 0.0; };
            static const l2 zero2l = [](long double, long double) { return 0.0L; };
            for (const char* nm : { "fmod", "remainder", "fdim", "fmin", "fmax" })
            {
                if (!only.empty() && !only.count(nm))
                    continue;
                constexpr int el = std::is_same<T, float>::value ? XV_F32 : XV_F64;
                auto impls = impls_of(nm, el, "M");
                if (impls.empty())
                    continue;
                MFun f { nm, 2, nullptr, zero2, nullptr, zero2l, nullptr, nullptr, 1e30, 1e30, R_POW, 0, 0, false, false, 0, nm };
                run_fn_space<T>(f, binary_space<T>(nm, thorough, seed), impls, 2);
            }
        }
        for (const MFun& f : ipow_funs())
        {
            const char* nm = f.name;
            if (!only.empty() && !only.count(nm))
                continue;
            constexpr int elem = std::is_same<T, float>::value ? XV_F32 : XV_F64;
            auto impls = impls_of(nm, elem, "M");
            if (impls.empty())
                continue;
            Space<T> S;
            std::vector<uint64_t> xs;
            for (double v : { 0.0, -0.0, 1.0, -1.0, 2.0, -2.0, 0.5, -0.5, 1.0000001, 0.9999999, 3.0, 10.0, 1e10, 1e-10, 1e30, 1e-30, (double)std::numeric_limits<T>::max(), (double)std::numeric_limits<T>::min(),
                              (double)std::numeric_limits<T>::denorm_min(), (double)std::numeric_limits<T>::infinity(), -(double)std::numeric_limits<T>::infinity(), (double)std::numeric_limits<T>::quiet_NaN(), 1.5, -1.5 })
                xs.push_back(to_bits<T>((T)v));
            for (int k = 0; k < 40; ++k)
                for (int rep = 0; rep < 64; ++rep) // 64 consecutive points share an exponent: whole batches of every width
                {
                    S.pts.push_back(xs[(size_t)rep % xs.size()]);
                    S.pts2.push_back(to_bits<T>((T)k));
                }
            S.label = "40 exponents of the type (0, +-1, small, 2^k -+ 1, the extremes, their neighbours and halves) x 24 values";
            run_fn_space<T>(f, S, impls, 2);
        }
    }
}

int main(int argc, char** argv)
{
    MathExplorer E;
    std::string out, known, replay_fn, replay_type, replay_arch, replay_in;
    std::vector<std::string> modpaths;
    double deadline_s = 0;
    bool replay = false;
    std::string types = "float";
    for (int i = 1; i < argc; ++i)
    {
        std::string a = argv[i];
        auto next = [&]()
        {
            if (i + 1 >= argc)
                exit(2);
            return std::string(argv[++i]);
        };
        if (a == "--prop")
            E.prop = next();
        else if (a == "--tier")
            E.tier = next();
        else if (a == "--seed")
            E.seed = strtoull(next().c_str(), nullptr, 10);
        else if (a == "--out")
            out = next();
        else if (a == "--known")
            known = next();
        else if (a == "--mod")
            modpaths.push_back(next());
        else if (a == "--threads")
            E.nthreads = atoi(next().c_str());
        else if (a == "--deadline")
            deadline_s = atof(next().c_str());
        else if (a == "--types")
            types = next();
        else if (a == "--ticks")
            E.mode_ticks = true;
        else if (a == "--scalar")
        {
            E.mode_scalar = true;
            scalar_bounds() = true;
        }
        else if (a == "--special")
            E.mode_special = true;
        else if (a == "--placement")
            E.mode_placement = true;
        else if (a == "--complex")
            E.mode_complex = true;
        else if (a == "--only")
            for (auto& s : split(next(), ','))
                E.only.insert(s);
        else if (a == "--full-archs")
            for (auto& s : split(next(), ','))
                E.full_archs.insert(s);
        else if (a == "--replay")
            replay = true;
        else if (a == "--op")
            replay_fn = next();
        else if (a == "--type")
            replay_type = next();
        else if (a == "--arch")
            replay_arch = next();
        else if (a == "--in")
            replay_in = next();
        else if (a == "--param")
            next();
        else
        {
            fprintf(stderr, "unknown argument %s\n", a.c_str());
            return 2;
        }
    }
    if (fegetround() != FE_TONEAREST || (_mm_getcsr() & 0x8040))
    {
        fprintf(stderr, "unexpected MXCSR state\n");
        return 2;
    }
    E.thorough = E.tier == "thorough";
    for (auto& p : modpaths)
        E.mods.push_back(load_module(p));
    if (!known.empty())
        for (auto& k : split(known, ','))
            E.known_open.insert(k);
    double t0 = now_s();
    if (deadline_s > 0)
        E.deadline = t0 + deadline_s;
    E.hb = std::vector<Heartbeat>((size_t)E.nthreads);

    if (replay)
    {
        // one batch, executed twice; every lane judged with the function's rule against MPFR
        const MFun* f = find_mfun(replay_fn);
        if (!f)
            for (auto& g : ipow_funs())
                if (replay_fn == g.name)
                    f = &g;
        if (!f)
        {
            fprintf(stderr, "replay: unknown function %s\n", replay_fn.c_str());
            return 2;
        }
        int elem = replay_type == "float" ? XV_F32 : XV_F64;
        auto ops = split(replay_in, ':');
        std::vector<std::vector<uint64_t>> lit;
        for (auto& o : ops)
        {
            std::vector<uint64_t> v;
            for (auto& h : split(o, ','))
                v.push_back(strtoull(h.c_str(), nullptr, 16));
            lit.push_back(v);
        }
        std::vector<MImpl> impls;
        for (auto& im : E.impls_of(f->impl, elem, E.mode_scalar ? "C17" : "M"))
            if (E.mods[(size_t)im.module].arch == replay_arch)
                impls.push_back(im);
        if (impls.empty())
        {
            fprintf(stderr, "replay: %s<%s> on %s not loaded\n", replay_fn.c_str(), replay_type.c_str(), replay_arch.c_str());
            return 2;
        }
        const size_t L = (size_t)impls[0].op->lanes;
        std::string obs[2];
        int fails[2] = { 0, 0 };
        for (int rep = 0; rep < 2; ++rep)
        {
            alignas(64) unsigned char a[64 * 8], b[64 * 8], o0[64 * 8], o1[64 * 8];
            size_t sz = elem == XV_F32 ? 4 : 8;
            for (size_t l = 0; l < L; ++l)
            {
                memcpy(a + l * sz, &lit[0][l % lit[0].size()], sz);
                uint64_t bv = lit.size() > 1 ? lit[1][l % lit[1].size()] : 0;
                memcpy(b + l * sz, &bv, sz);
            }
            const void* in[2] = { a, b };
            void* outp[2] = { o0, o1 };
            xv_ctx ctx;
            memset(&ctx, 0, sizeof ctx);
            ctx.tick_cap = 1000;
            ctx.aborted_at = -1;
            uint32_t tk[2] = { 0, 0 };
            ctx.ticks = tk;
            impls[0].op->fn(in, outp, L, &ctx);
            const unsigned tb = elem == XV_F32 ? f->tick32 : f->tick64;
            if (ctx.aborted_at >= 0 || tk[0] > tb)
            {
                ++fails[rep];
                obs[rep] += "ticks=" + std::to_string(ctx.aborted_at >= 0 ? 1001 : tk[0]) + ";";
                continue;
            }
            if (E.mode_ticks)
                continue;
            for (size_t l = 0; l < L; ++l)
            {
                long double x, y, o;
                if (elem == XV_F32)
                {
                    x = ((float*)a)[l];
                    y = ((float*)b)[l];
                    o = ((float*)(f->out_slot ? o1 : o0))[l];
                }
                else
                {
                    x = ((double*)a)[l];
                    y = ((double*)b)[l];
                    o = ((double*)(f->out_slot ? o1 : o0))[l];
                }
                bool fin = std::isfinite((double)x) && (f->arity == 1 || std::isfinite((double)y));
                if (!fin)
                    continue;
                long double r = mpfr_ref(*f, x, y);
                Judge J = elem == XV_F32 ? judge<float>(*f, x, y, r, (float)o) : judge<double>(*f, x, y, r, (double)o);
                if (J.v == V_FAIL_ACC && std::isfinite(J.err))
                {
                    J.err = elem == XV_F32 ? mpfr_err_ulp<float>(*f, x, y, (float)o, f->rule == R_LGAMMA) : mpfr_err_ulp<double>(*f, x, y, (double)o, f->rule == R_LGAMMA);
                    if (J.err <= J.bound)
                        J.v = V_PASS;
                }
                if (J.v == V_FAIL_ACC || J.v == V_FAIL_GRACE)
                {
                    ++fails[rep];
                    char buf[128];
                    snprintf(buf, sizeof buf, "lane%zu:x=%.9Lg,res=%.17Lg,err=%.2f>%.2f;", l, x, o, J.err, J.bound);
                    obs[rep] += buf;
                }
            }
        }
        if (fails[0] != fails[1] || obs[0] != obs[1])
        {
            printf("REPLAY-NONDETERMINISTIC\n");
            return 3;
        }
        printf("REPLAY %s failing_lanes=%d %s\n", fails[0] ? "FAILS" : "passes", fails[0], obs[0].c_str());
        return fails[0] ? 1 : 0;
    }

    {
        snprintf(g_crash_out, sizeof g_crash_out, "%s", out.c_str());
        snprintf(g_crash_prop, sizeof g_crash_prop, "%s", E.prop.c_str());
        struct sigaction sa;
        memset(&sa, 0, sizeof sa);
        sa.sa_sigaction = crash_handler;
        sa.sa_flags = SA_SIGINFO | SA_ONSTACK;
        sigaction(SIGSEGV, &sa, nullptr);
        sigaction(SIGBUS, &sa, nullptr);
        sigaction(SIGFPE, &sa, nullptr);
        sigaction(SIGILL, &sa, nullptr);
    }
    // hang watchdog: a kernel call that does not return within 30 s is reported and the run ends
    std::atomic<bool> done { false };
    std::thread wd([&]()
                   {
        while (!done)
        {
            usleep(500000);
            double now = now_s();
            for (auto& h : E.hb)
            {
                double s = h.t0.load();
                if (s != 0 && now - s > 30)
                {
                    J j;
                    j.obj();
                    j.k("property_id").str(E.prop);
                    j.k("hang").b(true);
                    j.k("op").str(h.op.load());
                    j.k("arch").str(h.arch.load());
                    j.k("first_arg").str(hex(h.first.load(), 8));
                    j.k("last_arg").str(hex(h.last.load(), 8));
                    j.eobj();
                    FILE* fp = fopen(out.c_str(), "w");
                    if (fp)
                    {
                        fwrite(j.s.data(), 1, j.s.size(), fp);
                        fclose(fp);
                    }
                    fprintf(stderr, "[xvmath] HANG: %s on %s did not return within 30 s (arguments in block %s..%s)\n", h.op.load(), h.arch.load(), hex(h.first.load(), 8).c_str(), hex(h.last.load(), 8).c_str());
                    _exit(4);
                }
            }
        } });

    for (auto& ty : split(types, ','))
    {
        if (E.mode_complex)
        {
            if (ty == "float")
                E.run_complex<float>();
            else if (ty == "double")
                E.run_complex<double>();
        }
        else if (E.mode_special)
        {
            if (ty == "float")
                E.run_special<float>();
            else if (ty == "double")
                E.run_special<double>();
        }
        else if (E.mode_placement)
        {
            if (ty == "float")
                E.run_placement<float>();
            else if (ty == "double")
                E.run_placement<double>();
        }
        else if (ty == "float")
            E.run_all<float>();
        else if (ty == "double")
            E.run_all<double>();
    }
    done = true;
    wd.join();

    // ---- report ----
    J j;
    j.obj();
    j.k("property_id").str(E.prop);
    j.k("tier").str(E.tier);
    j.k("seed").u(E.seed);
    j.k("wall_s").num(now_s() - t0);
    uint64_t transitions = 0, nontrivial = 0, disagreements = 0, skipped = 0;
    for (auto& kv : E.stats)
    {
        transitions += kv.second->judged;
        skipped += kv.second->skipped;
        disagreements += kv.second->disagreements;
        nontrivial += kv.second->judged;
    }
    j.k("states").u(E.states);
    j.k("transitions").u(transitions);
    j.k("skipped_by_precondition").u(skipped);
    j.k("distinct_nontrivial").u(E.states);
    j.k("disagreements_checked").u(disagreements);
    j.k("exhaustive").b(!E.expired);
    j.k("architectures").arr();
    for (auto& m : E.mods)
        j.str(m.arch);
    j.earr();
    j.k("per_arch_points").obj();
    for (auto& kv : E.per_arch)
        j.k(kv.first).u(kv.second);
    j.eobj();
    j.k("per_op").obj();
    for (auto& kv : E.stats)
    {
        j.k(kv.first).obj();
        j.k("points").u(kv.second->points);
        j.k("lane_results_judged").u(kv.second->judged);
        j.k("max_error_ulp_accepted").num(kv.second->maxerr());
        j.k("mpfr_rechecks").u(kv.second->mpfr_checked);
        j.k("reference_disagreements").u(kv.second->disagreements);
        j.k("aborted_calls").u(kv.second->aborted_calls);
        j.k("max_loop_ticks").u(kv.second->maxticks);
        j.k("max_block_cpu_us").u(kv.second->max_block_cpu_us);
        j.eobj();
    }
    j.eobj();
    j.k("vacuous_ops").arr().earr();
    j.k("saturated").arr().earr();
    j.k("samples").arr();
    for (auto& s : E.samples)
    {
        j.obj();
        j.k("op").str(s.op);
        j.k("type").str(s.type);
        j.k("arch").str(s.arch);
        j.k("in").arr();
        for (auto& x : s.in)
            j.str(x);
        j.earr();
        j.k("reference_rounded").str(s.expected);
        j.k("observed").str(s.observed);
        j.eobj();
    }
    j.earr();
    j.k("notes").arr();
    for (auto& s : E.notes)
        j.str(s);
    j.earr();
    j.k("violations_total").u(E.total);
    j.k("violations_unknown").u(E.unknown);
    j.k("by_finding").obj();
    for (auto& kv : E.by_finding)
        j.k(kv.first).u(kv.second);
    j.eobj();
    j.k("by_key").obj();
    for (auto& kv : E.by_key)
        j.k(kv.first).u(kv.second);
    j.eobj();
    j.k("violations").arr();
    for (auto& v : E.detailed)
        json_violation(j, v);
    j.earr();
    j.eobj();
    FILE* fp = fopen(out.c_str(), "w");
    if (!fp)
    {
        perror(out.c_str());
        return 2;
    }
    fwrite(j.s.data(), 1, j.s.size(), fp);
    fclose(fp);
    fprintf(stderr, "[xvmath] %s %s: states=%llu judged=%llu violations=%llu (unknown %llu) wall=%.1fs exhaustive=%d\n", E.prop.c_str(), E.tier.c_str(),
            (unsigned long long)E.states, (unsigned long long)transitions, (unsigned long long)E.total, (unsigned long long)E.unknown, now_s() - t0, (int)!E.expired);
    return 0;
}
