// Result file of one explorer run (read by bin/vcheck, which turns it into evidence/<id>.json,
// replay files and the VIOLATION / KNOWN-FINDING lines).
#pragma once
#include "elementwise.hpp"

namespace xv
{
    inline void json_violation(J& j, const Violation& v)
    {
        j.obj();
        j.k("property").str(v.prop);
        j.k("op").str(v.op);
        j.k("arch").str(v.arch);
        j.k("type").str(xv_type_name[v.elem]);
        j.k("oracle").str(v.oracle);
        if (!v.note.empty())
            j.k("note").str(v.note);
        j.k("param").i(v.param);
        j.k("lane").i(v.lane);
        j.k("lanes").i(v.lanes);
        j.k("out_slot").i(v.out_slot);
        j.k("out_type").str(xv_type_name[v.out_type]);
        j.k("in_types").arr();
        for (int k = 0; k < v.nin; ++k)
            j.str(xv_type_name[v.in_t[k]]);
        j.earr();
        j.k("in").arr();
        for (int k = 0; k < v.nin; ++k)
        {
            j.arr();
            for (auto b : v.in[k])
                j.str(hex(b, xv_type_size[v.in_t[k]]));
            j.earr();
        }
        j.earr();
        j.k("expected").str(hex(v.expected, xv_type_size[v.out_type]));
        if (v.has_alt)
            j.k("expected_alt").str(hex(v.alt, xv_type_size[v.out_type]));
        j.k("observed").str(hex(v.observed, xv_type_size[v.out_type]));
        j.k("finding").str(v.finding);
        j.eobj();
    }

    struct Report
    {
        std::string prop, tier;
        uint64_t seed = 0;
        double wall = 0;
        J extra; // additional coverage keys, already serialised as "k":v,... pairs
        std::vector<std::string> extra_pairs;

        void write(const std::string& path, const RunStats& R, ViolationLog& log, const std::vector<std::string>& archs, const std::vector<std::string>& notes)
        {
            J j;
            j.obj();
            j.k("property_id").str(prop);
            j.k("tier").str(tier);
            j.k("seed").u(seed);
            j.k("wall_s").num(wall);
            j.k("states").u(R.states);
            j.k("transitions").u(R.transitions);
            j.k("skipped_by_precondition").u(R.skipped);
            j.k("distinct_nontrivial").u(R.nontrivial);
            j.k("exhaustive").b(R.exhaustive);
            j.k("architectures").arr();
            for (auto& a : archs)
                j.str(a);
            j.earr();
            j.k("per_arch_points").obj();
            for (auto& kv : R.per_arch)
                j.k(kv.first).u(kv.second);
            j.eobj();
            j.k("per_op").obj();
            for (auto& kv : R.per_op_points)
            {
                j.k(kv.first).obj();
                j.k("points").u(kv.second);
                auto it = R.per_op_distinct.find(kv.first);
                j.k("distinct_outcomes_ge").u(it == R.per_op_distinct.end() ? 0 : it->second);
                j.eobj();
            }
            j.eobj();
            j.k("vacuous_ops").arr();
            for (auto& s : R.vacuous_ops)
                j.str(s);
            j.earr();
            j.k("rejected_at_run_time").arr();
            for (auto& s : R.rejected_at_run_time)
                j.str(s);
            j.earr();
            j.k("saturated").arr();
            for (auto& s : R.saturated)
                j.str(s);
            j.earr();
            j.k("samples").arr();
            for (auto& s : R.samples)
            {
                j.obj();
                j.k("op").str(s.op);
                j.k("type").str(s.type);
                j.k("arch").str(s.arch);
                j.k("param").i(s.param);
                j.k("in").arr();
                for (auto& x : s.in)
                    j.str(x);
                j.earr();
                j.k("expected").str(s.expected);
                j.k("observed").str(s.observed);
                j.eobj();
            }
            j.earr();
            j.k("notes").arr();
            for (auto& s : notes)
                j.str(s);
            j.earr();
            for (auto& p : extra_pairs)
            {
                j.sep();
                j.s += p;
            }
            j.k("violations_total").u(log.total);
            j.k("violations_unknown").u(log.unknown);
            j.k("by_finding").obj();
            for (auto& kv : log.count_by_finding)
                j.k(kv.first).u(kv.second);
            j.eobj();
            j.k("by_key").obj();
            for (auto& kv : log.count_by_key)
                j.k(kv.first).u(kv.second);
            j.eobj();
            j.k("violations").arr();
            for (auto& v : log.detailed)
                json_violation(j, v);
            j.earr();
            j.eobj();
            FILE* f = fopen(path.c_str(), "w");
            if (!f)
            {
                perror(path.c_str());
                exit(2);
            }
            fwrite(j.s.data(), 1, j.s.size(), f);
            fclose(f);
        }
    };
}
