// ABI between the per-architecture harness objects (one .so per architecture and
// harness group, each compiled with exactly that ISA's flags) and the explorer.
// Every operation is exported as an "array kernel": it walks n elements in strides
// of the batch size, loads one batch per operand, applies the real xsimd kernel
// and stores the result.  Lane k of batch j is element j*lanes+k of every array.
#pragma once
#include <stddef.h>
#include <stdint.h>

enum xv_type
{
    XV_I8,
    XV_U8,
    XV_I16,
    XV_U16,
    XV_I32,
    XV_U32,
    XV_I64,
    XV_U64,
    XV_F32,
    XV_F64,
    XV_BOOL, // C++ bool, one byte per lane (batch_bool load/store through bool arrays)
    XV_NTYPES
};

static const int xv_type_size[XV_NTYPES] = { 1, 1, 2, 2, 4, 4, 8, 8, 4, 8, 1 };
static const char* const xv_type_name[XV_NTYPES] = { "int8", "uint8", "int16", "uint16", "int32", "uint32", "int64", "uint64", "float", "double", "bool" };

struct xv_ctx
{
    long param; // scalar parameter of the op (shift count, exponent, ...)
    unsigned long tick_cap; // loop-tick abort cap for one call (0 = no cap)
    uint32_t* ticks; // optional: one entry per batch, number of loop ticks of that call
    long aborted_at; // out: -1, or index of the first batch whose call was aborted by the tick cap
    unsigned long max_ticks; // out: maximum tick count of one call
};

// returns 0; processes n elements (n is a multiple of lanes)
typedef int (*xv_fn)(const void* const* in, void* const* out, size_t n, xv_ctx* ctx);

struct xv_op
{
    const char* prop; // property the op belongs to (C01, ...)
    const char* name; // operation name; the explorer looks the reference model up by (name)
    int elem; // xv_type the op is instantiated for (the batch's T)
    int nin;
    int in_t[4];
    int nout;
    int out_t[2];
    int lanes; // batch<T, A>::size
    xv_fn fn;
};

struct xv_module
{
    const char* arch; // name as used by the build matrix
    const char* harness;
    int nops;
    const xv_op* ops;
};

extern "C" const xv_module* xv_get_module();
