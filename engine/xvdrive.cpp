// Explorer executable for the element-wise properties (C01, C02, C03, C06, C07, C08, C17):
// loads one harness object per architecture, enumerates the operand spaces, compares every lane of
// every kernel result with the reference model.  Also replays single batches (--replay).
#include <fenv.h>
#include <unistd.h>
#include <xmmintrin.h>

#include <atomic>
#include <thread>

#include "classify.hpp"
#include "elementwise.hpp"
#include "refs_all.hpp"
#include "report.hpp"
#include "spaces.hpp"

using namespace xv;

// interposed: the harness objects resolve __assert_fail here (the explorer is linked with -rdynamic)
extern "C" void __assert_fail(const char* assertion, const char* file, unsigned int line, const char* function)
{
    AssertTrap& T = assert_trap();
    if (T.armed)
    {
        snprintf(T.msg, sizeof T.msg, "%s (%s:%u)", assertion, file, line);
        siglongjmp(T.env, (strstr(assertion, "unsupported arch/op combination") || strstr(assertion, "not implemented yet")) ? 1 : 2);
    }
    fprintf(stderr, "%s:%u: %s: Assertion `%s' failed.\n", file, line, function, assertion);
    abort();
}

static std::vector<std::string> split(const std::string& s, char c)
{
    std::vector<std::string> o;
    std::string cur;
    for (char ch : s)
    {
        if (ch == c)
        {
            o.push_back(cur);
            cur.clear();
        }
        else
            cur += ch;
    }
    o.push_back(cur);
    return o;
}

static int type_by_name(const std::string& n)
{
    for (int t = 0; t < XV_NTYPES; ++t)
        if (n == xv_type_name[t])
            return t;
    fprintf(stderr, "unknown type %s\n", n.c_str());
    exit(2);
}

int main(int argc, char** argv)
{
    std::string prop, tier = "quick", out, known, replay_op, replay_type, replay_arch, replay_in;
    std::vector<std::string> modpaths, only;
    uint64_t seed = 0;
    int threads = 16;
    double deadline_s = 0;
    long replay_param = 0;
    bool replay = false, placement = false, timing = false;
    std::vector<std::string> props;
    for (int i = 1; i < argc; ++i)
    {
        std::string a = argv[i];
        auto next = [&]()
        {
            if (i + 1 >= argc)
            {
                fprintf(stderr, "missing value for %s\n", a.c_str());
                exit(2);
            }
            return std::string(argv[++i]);
        };
        if (a == "--prop")
            prop = next();
        else if (a == "--tier")
            tier = next();
        else if (a == "--seed")
            seed = strtoull(next().c_str(), nullptr, 10);
        else if (a == "--out")
            out = next();
        else if (a == "--known")
            known = next();
        else if (a == "--mod")
            modpaths.push_back(next());
        else if (a == "--threads")
            threads = atoi(next().c_str());
        else if (a == "--deadline")
            deadline_s = atof(next().c_str());
        else if (a == "--only")
            only = split(next(), ',');
        else if (a == "--replay")
            replay = true;
        else if (a == "--placement")
            placement = true;
        else if (a == "--timing")
            timing = true;
        else if (a == "--props")
            props = split(next(), ',');
        else if (a == "--perm-tables")
            load_perm_tables(next());
        else if (a == "--op")
            replay_op = next();
        else if (a == "--type")
            replay_type = next();
        else if (a == "--arch")
            replay_arch = next();
        else if (a == "--param")
            replay_param = atol(next().c_str());
        else if (a == "--in")
            replay_in = next();
        else
        {
            fprintf(stderr, "unknown argument %s\n", a.c_str());
            return 2;
        }
    }
    // the environment the oracles assume: default rounding, no FTZ/DAZ
    if (fegetround() != FE_TONEAREST || (_mm_getcsr() & 0x8040))
    {
        fprintf(stderr, "unexpected MXCSR state\n");
        return 2;
    }
    register_all_specs();

    Explorer E;
    E.nthreads = threads;
    for (auto& p : modpaths)
        E.mods.push_back(load_module(p));
    E.log.classify = &classify_violation;
    if (!known.empty())
        for (auto& k : split(known, ','))
            E.log.known_open.insert(k);
    E.timing_only = timing;
    Tier T;
    T.thorough = tier == "thorough";
    T.seed = seed;
    double t0 = now_s();
    if (deadline_s > 0)
        E.deadline = t0 + deadline_s;

    if (replay)
    {
        // one batch, literal operands; executed twice, observations must be identical
        int elem = type_by_name(replay_type);
        std::vector<Module> keep;
        for (auto& m : E.mods)
            if (m.arch == replay_arch)
                keep.push_back(m);
        E.mods = keep;
        if (E.mods.empty())
        {
            fprintf(stderr, "replay: architecture %s not loaded\n", replay_arch.c_str());
            return 2;
        }
        std::vector<std::vector<uint64_t>> lit;
        for (auto& opnd : split(replay_in, ':'))
        {
            std::vector<uint64_t> v;
            for (auto& h : split(opnd, ','))
                v.push_back(strtoull(h.c_str(), nullptr, 16));
            lit.push_back(v);
        }
        uint64_t fail[2] = { 0, 0 };
        std::string obs[2];
        for (int rep = 0; rep < 2; ++rep)
        {
            Explorer R;
            R.nthreads = 1;
            R.mods = E.mods;
            R.log.classify = E.log.classify;
            std::set<std::string> oo { replay_op };
            build_plan(R, prop, T, oo);
            // keep only the requested element type and param, replace the space by the literal batch
            std::vector<std::unique_ptr<Group>> gs;
            for (auto& g : R.groups)
            {
                if (g->sig.elem != elem || gs.size())
                    continue;
                std::vector<std::unique_ptr<OpInst>> ops;
                for (auto& o : g->ops)
                    if (o->param == replay_param && ops.empty())
                        ops.push_back(std::move(o));
                g->ops = std::move(ops);
                if (g->ops.empty())
                    continue;
                SubSpace s;
                s.label = "replay";
                s.literal = lit;
                s.al.resize(lit.size());
                s.finish();
                g->sp = s;
                gs.push_back(std::move(g));
            }
            R.groups = std::move(gs);
            if (R.groups.empty())
            {
                fprintf(stderr, "replay: op %s<%s> not found\n", replay_op.c_str(), replay_type.c_str());
                return 2;
            }
            R.run();
            fail[rep] = R.log.total;
            for (auto& v : R.log.detailed)
                obs[rep] += hex(v.observed, 8) + "@" + std::to_string(v.lane) + ";";
        }
        if (fail[0] != fail[1] || obs[0] != obs[1])
        {
            printf("REPLAY-NONDETERMINISTIC first=%llu second=%llu\n", (unsigned long long)fail[0], (unsigned long long)fail[1]);
            return 3;
        }
        printf("REPLAY %s mismatching_lanes=%llu %s\n", fail[0] ? "FAILS" : "passes", (unsigned long long)fail[0], obs[0].c_str());
        return fail[0] ? 1 : 0;
    }

    std::set<std::string> oo(only.begin(), only.end());
    if (placement)
        for (auto& p : props)
            build_plan(E, p, T, oo, true);
    else
        build_plan(E, prop, T, oo);
    if (E.groups.empty())
    {
        fprintf(stderr, "no operations registered for %s\n", prop.c_str());
        return 2;
    }
    // hang watchdog: a kernel call that does not return within 60 s ends the run with a report (exit status 4)
    std::atomic<bool> wd_done { false };
    std::thread wd([&]()
                   {
        while (!wd_done)
        {
            usleep(500000);
            const double now = now_s();
            for (int i = 0; i < 256; ++i)
            {
                HangSlot& h = hang_slots()[i];
                const double s = h.t0.load();
                const xv_op* op = h.op.load();
                if (s != 0 && now - s > 60 && op)
                {
                    const int mi = h.module.load();
                    const std::string arch = (mi >= 0 && (size_t)mi < E.mods.size()) ? E.mods[(size_t)mi].arch : "?";
                    J j;
                    j.obj();
                    j.k("property_id").str(prop);
                    j.k("hang").b(true);
                    j.k("op").str(op->name);
                    j.k("type").str(xv_type_name[op->elem]);
                    j.k("arch").str(arch);
                    j.k("param").num((double)h.param.load());
                    j.eobj();
                    FILE* fp = fopen(out.c_str(), "w");
                    if (fp)
                    {
                        fwrite(j.s.data(), 1, j.s.size(), fp);
                        fclose(fp);
                    }
                    fprintf(stderr, "[xvdrive] HANG: %s<%s> on %s (param %ld) did not return within 60 s\n", op->name, xv_type_name[op->elem], arch.c_str(), h.param.load());
                    _exit(4);
                }
            }
        } });
    E.run();
    wd_done = true;
    wd.join();
    RunStats R = E.stats();
    std::vector<std::string> archs, notes;
    for (auto& m : E.mods)
        archs.push_back(m.arch);
    for (auto& g : E.groups)
        notes.push_back(std::string(xv_type_name[g->sig.elem]) + " " + g->sp.label + ": tuples=" + std::to_string(g->sp.ntuples) + " lane_shifts=" + std::to_string(g->sp.shifts) + " ops=" + std::to_string(g->ops.size()));
    {
        char b[160];
        snprintf(b, sizeof b, "largest CPU time of one block of kernel calls: %.3f ms (limit %.0f ms)", (double)max_call_cpu_us().load() / 1000.0, CALL_CPU_LIMIT_S * 1000.0);
        notes.push_back(b);
        if (timing)
            notes.push_back("timing mode (C14): every call of the placement spaces is executed and its CPU time judged; results are not compared");
    }
    Report rep;
    rep.prop = prop;
    rep.tier = tier;
    rep.seed = seed;
    rep.wall = now_s() - t0;
    rep.write(out, R, E.log, archs, notes);
    fprintf(stderr, "[xvdrive] %s %s: states=%llu transitions=%llu violations=%llu (unknown %llu) wall=%.1fs exhaustive=%d\n", prop.c_str(), tier.c_str(),
            (unsigned long long)R.states, (unsigned long long)R.transitions, (unsigned long long)E.log.total, (unsigned long long)E.log.unknown, rep.wall, (int)R.exhaustive);
    return 0;
}
