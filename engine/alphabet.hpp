// Named finite alphabets of operand values (DESIGN.md 3.2).  Built by code only; VERIF_SEED
// appends a fixed number of seed-derived symbols, the product is still enumerated completely.
#pragma once
#include "util.hpp"
#include "xv_abi.h"

namespace xv
{
    struct Alpha
    {
        bool all = false; // every bit pattern of `bits` bits; value = index
        int bits = 0;
        std::vector<uint64_t> v;
        uint64_t step = 1; // for `all`: every step-th pattern only (a stated strided sub-alphabet)
        uint64_t size() const { return all ? ((1ull << bits) + step - 1) / step : v.size(); }
        uint64_t at(uint64_t i) const { return all ? i * step : v[i]; }
        static Alpha ALL(int bits)
        {
            Alpha a;
            a.all = true;
            a.bits = bits;
            return a;
        }
        static Alpha of(std::vector<uint64_t> v)
        {
            Alpha a;
            a.v = std::move(v);
            return a;
        }
        static Alpha range(uint64_t lo, uint64_t hi) // [lo,hi)
        {
            Alpha a;
            for (uint64_t x = lo; x < hi; ++x)
                a.v.push_back(x);
            return a;
        }
        // make the size odd (coprime with every power-of-two lane count) by repeating the first
        // symbol, so that in a single pass every symbol meets every lane position
        Alpha odd() const
        {
            Alpha a = *this;
            if (a.all)
            {
                a.all = false;
                for (uint64_t i = 0; i < size(); ++i)
                    a.v.push_back(at(i));
            }
            if (a.v.size() % 2 == 0)
                a.v.push_back(a.v[0]);
            return a;
        }
    };

    inline void dedup_keep_order(std::vector<uint64_t>& v)
    {
        std::set<uint64_t> seen;
        std::vector<uint64_t> o;
        for (auto x : v)
            if (seen.insert(x).second)
                o.push_back(x);
        v.swap(o);
    }

    // integer boundary lattice for a bit width, as bit patterns (valid for signed and unsigned)
    inline Alpha int_lattice(int bits, uint64_t seed, int nseed, bool small = false)
    {
        const uint64_t M = bits == 64 ? ~0ull : ((1ull << bits) - 1);
        std::vector<uint64_t> v;
        auto add = [&](uint64_t x)
        { v.push_back(x & M); };
        for (int k = 0; k <= 3; ++k)
        {
            add((uint64_t)k);
            add((uint64_t)(-(int64_t)k));
        }
        const uint64_t MIN = 1ull << (bits - 1);
        for (int k = 0; k < 3; ++k)
        {
            add(MIN + k); // signed MIN..
            add(MIN - 1 - k); // signed MAX..
            add(M - k); // unsigned MAX.. (= -1, -2, -3)
        }
        for (int k = 1; k < bits; ++k)
        {
            if (small && !(k <= 2 || k >= bits - 2 || k == bits / 2))
                continue;
            uint64_t p = 1ull << k;
            add(p);
            add(p - 1);
            add(p + 1);
            add(0 - p);
            add(0 - p + 1);
            add(0 - p - 1);
        }
        add(0x5555555555555555ull);
        add(0xAAAAAAAAAAAAAAAAull);
        add(0x00FF00FF00FF00FFull);
        add(0xFF00FF00FF00FF00ull);
        add(0x0000FFFF0000FFFFull);
        add(0xFFFF0000FFFF0000ull);
        add(0x0F0F0F0F0F0F0F0Full);
        add(0x3333333333333333ull);
        add(0x0123456789ABCDEFull);
        add(0xFEDCBA9876543210ull);
        // neighbours of sqrt(MAX) (products that just overflow / just do not)
        {
            uint64_t r = (uint64_t)std::sqrt((double)(MIN - 1));
            for (int d = -1; d <= 1; ++d)
            {
                add(r + d);
                add(0 - (r + d));
            }
            uint64_t ru = bits == 64 ? 0xFFFFFFFFull : (uint64_t)std::sqrt((double)M);
            for (int d = -1; d <= 1; ++d)
                add(ru + d);
        }
        uint64_t s = seed * 0x100000001B3ull + (uint64_t)bits;
        for (int k = 0; k < nseed; ++k)
            add(splitmix64(s));
        dedup_keep_order(v);
        return Alpha::of(v);
    }

    // ---- IEEE lattices ----------------------------------------------------------------------
    template <class F>
    struct fp_traits;
    template <>
    struct fp_traits<float>
    {
        using U = uint32_t;
        using I = int32_t;
        static constexpr int bits = 32, mant = 23, ebits = 8, bias = 127;
    };
    template <>
    struct fp_traits<double>
    {
        using U = uint64_t;
        using I = int64_t;
        static constexpr int bits = 64, mant = 52, ebits = 11, bias = 1023;
    };
    template <class F>
    inline F from_bits(uint64_t b)
    {
        typename fp_traits<F>::U u = (typename fp_traits<F>::U)b;
        F f;
        memcpy(&f, &u, sizeof f);
        return f;
    }
    template <class F>
    inline uint64_t to_bits(F f)
    {
        typename fp_traits<F>::U u;
        memcpy(&u, &f, sizeof f);
        return u;
    }

    // structured mantissa patterns (k of them, k >= 4)
    template <class F>
    inline std::vector<uint64_t> mant_patterns(int k, uint64_t seed)
    {
        constexpr int m = fp_traits<F>::mant;
        const uint64_t MM = (1ull << m) - 1;
        std::vector<uint64_t> v = { 0, 1, MM, 1ull << (m - 1), MM - 1, (1ull << (m - 1)) - 1, (1ull << (m - 1)) + 1, 0x5555555555555555ull & MM, 0xAAAAAAAAAAAAAAAAull & MM };
        // fractions of pi/4, e/4, sqrt2/2, ln2, 1/3, 1/pi as mantissas
        const double fr[] = { 3.14159265358979323846 / 2, 2.71828182845904523536 / 2, 1.41421356237309504880, 1.38629436111989061883, 1.33333333333333333333, 1.27323954473516268615, 1.1, 1.9, 1.5707963267948966 / 1 };
        for (double d : fr)
        {
            double f = d;
            while (f >= 2)
                f /= 2;
            while (f < 1)
                f *= 2;
            v.push_back((uint64_t)((f - 1.0) * (double)(1ull << m)) & MM);
        }
        for (int j = 1; j < m - 1 && (int)v.size() < k; ++j)
        {
            v.push_back(1ull << j);
            if ((int)v.size() < k)
                v.push_back(MM & ~(1ull << j));
        }
        uint64_t s = seed ^ 0xA5A5A5A5DEADBEEFull;
        while ((int)v.size() < k)
            v.push_back(splitmix64(s) & MM);
        dedup_keep_order(v);
        if ((int)v.size() > k)
            v.resize((size_t)k);
        return v;
    }

    // every exponent (incl. 0 = subnormal and all-ones = inf/NaN when with_special) x k mantissa patterns x both signs
    template <class F>
    inline Alpha binades(int k, uint64_t seed, bool with_special = true, int exp_step = 1)
    {
        using Tr = fp_traits<F>;
        auto mp = mant_patterns<F>(k, seed);
        std::vector<uint64_t> v;
        const int emax = (1 << Tr::ebits) - 1;
        for (int e = with_special ? 0 : 1; e <= (with_special ? emax : emax - 1); e += 1)
        {
            if (exp_step > 1 && (e % exp_step) != 0 && e > 2 && e < emax - 2 && std::abs(e - Tr::bias) > 3)
                continue;
            for (uint64_t m : mp)
                for (int sgn = 0; sgn < 2; ++sgn)
                    v.push_back(((uint64_t)sgn << (Tr::bits - 1)) | ((uint64_t)e << Tr::mant) | m);
        }
        dedup_keep_order(v);
        return Alpha::of(v);
    }

    // special-value lattice (DESIGN F32L / F64L); `level` 0 = compact (for products), 1 = full
    template <class F>
    inline Alpha fp_lattice(uint64_t seed, int nseed, int level = 1)
    {
        using Tr = fp_traits<F>;
        std::vector<uint64_t> v;
        auto addf = [&](F f)
        {
            v.push_back(to_bits<F>(f));
            v.push_back(to_bits<F>(-f));
        };
        auto addb = [&](uint64_t b)
        { v.push_back(b); };
        const uint64_t SIGN = 1ull << (Tr::bits - 1);
        const uint64_t EXPM = ((1ull << Tr::ebits) - 1) << Tr::mant;
        const uint64_t MM = (1ull << Tr::mant) - 1;
        addf((F)0);
        addf((F)1);
        addf((F)2);
        addf((F)0.5);
        addf((F)3);
        addf((F)1.5);
        addb(EXPM);
        addb(EXPM | SIGN); // +-inf
        addb(EXPM | (1ull << (Tr::mant - 1))); // quiet NaN
        addb(EXPM | SIGN | (1ull << (Tr::mant - 1))); // negative quiet NaN
        addb(EXPM | 1); // signalling NaN
        addb(EXPM | (1ull << (Tr::mant - 1)) | 0x1234); // payload NaN
        addb(1);
        addb(SIGN | 1); // denorm_min
        addb(MM);
        addb(SIGN | MM); // denorm_max
        addb(1ull << Tr::mant);
        addb(SIGN | (1ull << Tr::mant)); // MIN normal
        addb((1ull << Tr::mant) + 1);
        addb(EXPM - 1);
        addb(SIGN | (EXPM - 1)); // MAX
        addb(EXPM - 2);
        addb(MM >> 1);
        addb((1ull << (Tr::mant - 1))); // mid subnormal
        // 1 +- ulp, 2 +- ulp
        for (F c : { (F)1, (F)2, (F)0.5, (F)10, (F)100 })
        {
            uint64_t b = to_bits<F>(c);
            addb(b + 1);
            addb(b - 1);
            addb((b + 1) | SIGN);
            addb((b - 1) | SIGN);
            addb(b);
            addb(b | SIGN);
        }
        // powers of two with mantissa in {0, 1, all-ones, 100..0}
        const int emax = (1 << Tr::ebits) - 2;
        for (int e = 1; e <= emax; ++e)
        {
            bool keep = level >= 1 || e <= 3 || e >= emax - 2 || std::abs(e - Tr::bias) <= 4 || std::abs(e - Tr::bias) == Tr::mant || std::abs(e - Tr::bias) == Tr::mant + 1 || (e % (Tr::bits == 32 ? 16 : 128)) == 0;
            if (!keep)
                continue;
            for (uint64_t m : std::vector<uint64_t> { 0, 1, MM, (uint64_t)1 << (Tr::mant - 1) })
            {
                if (level == 0 && m != 0 && std::abs(e - Tr::bias) > 4 && e > 3 && e < emax - 2)
                    continue;
                uint64_t b = ((uint64_t)e << Tr::mant) | m;
                addb(b);
                addb(b | SIGN);
            }
        }
        // integers and half-integers around 2^23/2^24/2^31/2^32/2^52/2^53/2^63/2^64
        for (int k : { Tr::mant - 1, Tr::mant, Tr::mant + 1, 15, 16, 31, 32, 52, 53, 63, 64 })
        {
            F c = std::ldexp((F)1, k);
            uint64_t b = to_bits<F>(c);
            for (int d = -3; d <= 3; ++d)
            {
                addb(b + d);
                addb((b + d) | SIGN);
            }
            if (k <= Tr::mant)
            {
                addf(c + (F)0.5);
                addf(c - (F)0.5);
                addf(c + (F)1);
                addf(c - (F)1);
                addf(c + (F)1.5);
            }
        }
        // small integers and half-integers, thirds
        for (int k = 0; k <= (level ? 20 : 4); ++k)
        {
            addf((F)k);
            addf((F)k + (F)0.5);
            addf((F)k + (F)0.25);
            addf((F)(k + 1) / (F)3);
        }
        addf((F)3.14159265358979323846);
        addf((F)2.71828182845904523536);
        addf((F)0.1);
        addf((F)1e10);
        addf((F)1e-10);
        addf((F)1e30);
        addf((F)1e-30);
        uint64_t s = seed * 0x9E3779B97F4A7C15ull + (uint64_t)Tr::bits + 7;
        const uint64_t ALLM = Tr::bits == 64 ? ~0ull : 0xFFFFFFFFull;
        for (int k = 0; k < nseed; ++k)
            addb(splitmix64(s) & ALLM); // arbitrary bit patterns
        for (int k = 0; k < nseed; ++k)
        {
            // moderate-magnitude values: exponent within +-12 of the bias
            uint64_t r = splitmix64(s);
            uint64_t e = (uint64_t)(Tr::bias - 12 + (int)(r % 25));
            addb(((r >> 8) & MM) | (e << Tr::mant) | ((r >> 63) << (Tr::bits - 1)));
        }
        for (auto& x : v)
            x &= ALLM;
        dedup_keep_order(v);
        return Alpha::of(v);
    }

    // c +- w ulps (as neighbouring bit patterns; c must be finite non-zero), both signs if sym
    template <class F>
    inline void window(std::vector<uint64_t>& v, F c, int w, bool sym = true)
    {
        uint64_t b = to_bits<F>(c < 0 ? -c : c);
        const uint64_t SIGN = 1ull << (fp_traits<F>::bits - 1);
        for (int d = -w; d <= w; ++d)
        {
            v.push_back(b + d);
            if (sym)
                v.push_back((b + d) | SIGN);
        }
    }
}
