// Known-finding classes: predicates over a failing point.  A failing point is a KNOWN-FINDING only
// if it falls into a class whose id is listed as open in /verif/known_findings.json (passed with
// --known); everything else is a VIOLATION.  Classes are specific: operation, element type,
// operand predicate and the exact observed signature of the recorded defect, so that a different
// failure of the same operation is still reported.
#pragma once
#include "elementwise.hpp"

namespace xv
{
    enum
    {
        KF_ROTR_SIGNED = 0,
        KF_LDEXP_RANGE,
        KF_COUNT
    };

    inline const std::vector<FindingDef>& findings()
    {
        static const std::vector<FindingDef> f = {
            { "rotr-signed", "rotr on signed lanes is built from digits = bits-1 and an arithmetic right shift: result == (x >> n) | (x << (bits-1-n))" },
            { "ldexp-exponent-range", "generic ldexp(x, e) multiplies by the bit pattern (e + bias) << mantissa_bits, which is not 2^e for e outside the normal exponent range" },
        };
        return f;
    }

    inline bool starts_with(const std::string& s, const char* p) { return s.compare(0, strlen(p), p) == 0; }

    inline int64_t sext(uint64_t bits, int size)
    {
        switch (size)
        {
        case 1:
            return (int8_t)bits;
        case 2:
            return (int16_t)bits;
        case 4:
            return (int32_t)bits;
        default:
            return (int64_t)bits;
        }
    }

    inline int classify_violation(const VCtx& v)
    {
        const std::string& op = *v.op;
        const bool is_signed_int = v.elem <= XV_I64 && (v.elem % 2) == 0;
        if (is_signed_int && (starts_with(op, "rotr.s") || starts_with(op, "rotr.v")))
        {
            const int size = xv_type_size[v.elem];
            const int W = size * 8;
            long n = starts_with(op, "rotr.s") ? v.param : (long)sext(v.in[1], size);
            if (n >= 0 && n < W)
            {
                int64_t x = sext(v.in[0], size);
                uint64_t buggy = (uint64_t)(x >> n) | ((uint64_t)x << (W - 1 - n));
                uint64_t mask = size == 8 ? ~0ull : ((1ull << W) - 1);
                if ((buggy & mask) == (v.observed & mask))
                    return KF_ROTR_SIGNED;
            }
        }
        if (op == "ldexp" && (v.elem == XV_F32 || v.elem == XV_F64) && v.arch->compare(0, 6, "avx512") != 0)
        {
            // generic kernel: self * bitwise_cast<T>((e + maxexponent) << nmb), wrong exactly when 2^e is not a normal number
            if (v.elem == XV_F32)
            {
                int32_t e = (int32_t)v.in[1];
                if (e < -126 || e > 127)
                {
                    uint32_t ik = (uint32_t)(e + 127) << 23;
                    float x, p, obs;
                    uint32_t xb = (uint32_t)v.in[0], ob = (uint32_t)v.observed;
                    memcpy(&x, &xb, 4);
                    memcpy(&p, &ik, 4);
                    memcpy(&obs, &ob, 4);
                    volatile float r = x * p;
                    float rr = r;
                    if (memcmp(&rr, &obs, 4) == 0 || (rr != rr && obs != obs))
                        return KF_LDEXP_RANGE;
                }
            }
            else
            {
                int64_t e = (int64_t)v.in[1];
                if (e < -1022 || e > 1023)
                {
                    uint64_t ik = (uint64_t)(e + 1023) << 52;
                    double x, p, obs;
                    memcpy(&x, &v.in[0], 8);
                    memcpy(&p, &ik, 8);
                    memcpy(&obs, &v.observed, 8);
                    volatile double r = x * p;
                    double rr = r;
                    if (memcmp(&rr, &obs, 8) == 0 || (rr != rr && obs != obs))
                        return KF_LDEXP_RANGE;
                }
            }
        }
        return -1;
    }
}
