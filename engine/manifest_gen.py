#!/usr/bin/env python3
"""Regenerates /verif/MANIFEST.json from the table below (run after adding a check)."""
import json
import os
import subprocess

VERIF = os.path.dirname(os.path.dirname(os.path.abspath(__file__)))
TECH = "bounded exhaustive exploration (explicit enumeration of a stated finite space of states on the real code, reference-model refinement check on every transition)"
NOTE = ("trusted: g++ 12 code generation, the host CPU's execution of each ISA, the reference models under engine/; "
        "nothing is claimed outside the stated alphabets/bounds or for architectures the host cannot execute (NEON/SVE/RVV/WASM, fma4, avx512er/pf)")

CLAIMED = {
    "C01": ("Every operand tuple of the stated alphabets (all 8-bit pairs, 16-bit ALL16 x lattice, 32/64-bit lattice^2, ternary lattices), at every lane offset, on each of the 22 executable architectures is executed by the real kernel and compared lane-exactly with an __int128 reference model; exhaustive within that bound (thorough: all 2^32 16-bit pairs). A core set of the operations is also executed for the twin element types char, long long and unsigned long long (distinct C++ types with the layout of int8_t/int64_t/uint64_t that miss every overload written in terms of the fixed-width names).", "6 C01", "xvdrive"),
    "C02": ("Every point of the IEEE lattices (specials, every binade x structured mantissas, seed patterns; thorough: all 2^32 float32 patterns for unary operations), pairs and triples of lattice values, at every lane offset and on each architecture, compared bit-for-bit with the scalar SSE2 IEEE operation / glibc (fused-or-unfused latitude for the fma family, either operand for equal min/max operands).", "6 C02", "xvdrive"),
    "C03": ("All comparison outcomes on the C01/C02 pair spaces; every 16-bit mask value, all pairs of 8-bit masks and 16-bit x special pairs through five provenance/observation pairs (depth-2 chaining) against the n-bit integer model of a mask; select with tagged operands; on each architecture. The comparisons, select and one mask operation of every provenance are also executed for the twin element types char, long long and unsigned long long.", "6 C03", "xvdrive"),
    "C04": ("Every load/store form x element type is executed at every start address of three placement windows against PROT_NONE guard pages and across a page boundary on each architecture, so that a one-byte over-read or over-write faults; store neighbourhoods are compared byte for byte; the converting forms in four spellings (load_as/store_as with both mode tags, the batch members); gather/scatter over exhaustive (n <= 4) and structured index vectors with guarded tables, with unsigned indices above 2^(bits-1), and through a mid-table pointer with negative and positive signed indices for every table element type (converting forms); thorough adds an AddressSanitizer build for internal scratch buffers. Complex batches are moved through every spelling (members, load_as/store_as, load/store with a mode tag, the split real/imaginary form, the mixed-precision converting forms) in the same placements.", "6 C04", "xvmem"),
    "C05": ("Every generated compile-time mask program (about 350-860 swizzle and 570-990 shuffle instantiations per lane count incl. near misses of every regular pattern, all 4096 four-lane shuffles; thorough larger), every slide/rotate/extract/insert count, every run-time index vector of the stated families (all n^n for n <= 4, thorough n <= 8) and every compress/expand mask (all 2^n for n <= 16) is executed on byte-tagged batches on each architecture and compared bit-exactly with the index-level definition; acceptance per (architecture, type) decided by trial compilation.", "6 C05", "xvdrive"),
    "C06": ("Every representable source value of the stated alphabets (8/16-bit exhaustive, 32-bit lattice + strided sweep, thorough all 2^32; 64-bit lattices with every rounding-regime boundary and half-way case) for every (From,To) pair of batch_cast/load_as/store_as/broadcast_as/to_int/to_float, and byte-exact bitwise_cast between all pairs, on each architecture against static_cast in a strict IEEE translation unit. Every conversion from and to the twin element types char, long long and unsigned long long that the library accepts is included.", "6 C06", "xvdrive"),
    "C09": ("Lane-aware witness placement: a distinguished addend/extreme at every lane and every lane pair over several backgrounds, plus the full lattice through every lane, for every batch size 2..64 and each architecture; a skipped lane gives 0, a doubled lane gives 2; float sums exact where representable, otherwise within the (n-1)-rounding bound; generic reduce(f) wherever the library accepts it (decided by trial compilation). reduce_add (and reduce_max/reduce_min where the library accepts them) is also executed for the twin element types char, long long and unsigned long long.", "6 C09", "xvdrive"),
    "C07": ("Every lane value (8/16-bit exhaustive) x every shift/rotate count in [0,bits), scalar- and per-lane-count forms, at every lane offset and on each of the 22 architectures, compared lane-exactly with an unsigned-word reference model. The bitwise operators, shifts and rotates are also executed for the twin element types char, long long and unsigned long long.", "6 C07", "xvdrive"),
    "C08": ("Every k/2 and neighbours, windows at the magic magnitudes, every binade x mantissa patterns (thorough: all 2^32 float32 patterns), on each architecture, compared as numbers with glibc's rounding functions; integer-returning forms whenever the result fits.", "6 C08", "xvdrive"),
    "C10": ("Thorough tier: all 2^32 float32 arguments of every unary elementary function, in two stream orders, on each of the 22 architectures, judged against the frozen per-function ulp bounds of DESIGN.md 8.1 inside the normal range and against the graceful-degradation predicate outside, with MPFR as arbiter; quick tier: every binade x 2048 mantissas plus windows at every algorithm switch point. Binary functions on lattice^2.", "6 C10, 8.1", "xvmath"),
    "C11": ("Every point of a stated double lattice (all binades x structured mantissas, windows at every switch point, k*pi/2 +- ulps up to 2^900, gamma poles) in two stream orders on each architecture, long double reference with MPFR arbiter; the coverage statement is about this lattice only.", "6 C11, 8.2", "xvmath"),
    "C12": ("The special-operand table of the property (NaN, domain errors, poles, limits, identities) is placed in every lane among every companion class on each architecture; the symmetry/identity relations (odd, even, sincos, fabs/abs, rint/nearbyint, pow(x,0)) are checked bit-for-bit on every point of the unary argument spaces (thorough: all 2^32 float32 arguments).", "6 C12", "xvmath"),
    "C13": ("Every (subject operand, lane position, companion class) triple of stated finite alphabets is executed next to the broadcast batch of the same subject on each architecture: bit-identity for the exact operations of C01-C08, same special-value class and accuracy bound for the elementary functions, with companion classes on both sides of every whole-batch any()/all() threshold.", "6 C13", "xvdrive+xvmath"),
    "C14": ("For every argument of the C10/C11 spaces and every architecture the number of iterations of the data-dependent loops of one call (counted through the XSIMD_VERIF_LOOP_TICK hook) is compared with a frozen per-function constant; calls are aborted after 1000 iterations, and a watchdog catches any call that does not return within 30 s (loops added without a tick). All data-dependent loops found by a source audit are hooked: the seven gamma loops, the four loops of the scalar Payne-Hanek reduction behind sin/cos/tan for huge arguments, and the square-and-multiply loop of pow(x, integer), which is explored over 40 exponents (incl. the extremes) of six integer types. A second part executes every element-wise operation of C01/C02/C03/C06/C07/C08 (ldexp, frexp, nextafter, conversions, shifts ...) on boundary-alphabet placement spaces incl. the extremes of every operand type and judges the thread CPU time of every block of kernel calls (limit 0.5 s, the library needs milliseconds); the math explorer applies the same CPU-time oracle (1 s per block) to every function it runs.", "6 C14, 8.3, 11.5", "xvmath+xvdrive"),
    "C15": ("All 5 242 880 hardware-presentable configurations of the CPUID feature bits and OS states the detector reads are injected and the availability flags compared with the property's decision model (exhaustive); the dispatcher is instantiated for about 600 generated architecture lists and run under every relevant availability vector. Four functor shapes are dispatched (lvalue/rvalue/const arguments with a value result on every list; void without arguments through a dispatcher called twice, reference result, const functor with a move-only result on every fifth and every single-element list).", "6 C15", "xvcpuid"),
    "C18": ("All allocate/deallocate histories up to length 5 (thorough 6) over a 9-symbol alphabet, for 40 (T, Align) instantiations, executed on the real allocator under AddressSanitizer with a model of live blocks checked after every step; every subset of <= 2 injected posix_memalign failures per history; large requests (around every power of two up to 2^62 bytes) observed at the interposed posix_memalign (requested size and alignment), complete enumeration of the size-overflow window and of the alignment predicates over their residues, for element types with alignof == sizeof and alignof < sizeof.", "6 C18", "xvalloc"),
    "C16": ("Every operand tuple of a stated log-polar grid (all axes and branch cuts with both zero signs, +-1 ulp off the axes) for the arithmetic in every operator spelling (incl. compound assignment, mixed complex/real operands and the self-aliased forms z OP= z), fused forms, comparisons, accessors, the interleaved load/store forms through arrays of std::complex<T> and the claimed complex functions is executed on each architecture and compared componentwise with std::complex<long double> within 8 / 32 eps of max(|result|,1); the coverage statement is about this grid. The exact operations (neg, real, imag, conj, proj, ==, !=) are additionally executed on full-range operands (components from zero to MAX and infinity, squared modulus overflowing or underflowing) and proj is judged against std::proj; the real-batch overloads of real/imag/conj/proj/norm/arg are included.", "6 C16, 5.1", "xvmath"),
    "C17": ("Every scalar overload of the list is executed on the full operand spaces of C01/C02/C03/C06/C07/C08 (non-NaN operands) under each architecture's compile flags and judged by the same reference model as the batch lanes, so scalar and batch agree wherever the model is single-valued; clip and integer-exponent pow (26 exponents incl. INT_MIN/INT_MAX) are checked in both forms against one shared model; the scalar overloads of 26 elementary functions are judged against the exact result with the bound the property text gives for the family, over the C10/C11 argument spaces.", "6 C17", "xvdrive+xvmath"),
    "C19": ("Every template instantiation of the stated pack families (one-hot / all-but-one per lane, arange, reverse, extremes, seed packs, generators, every binary and unary operator over all ordered pairs of an 11-symbol boundary alphabet) for all 8 integer element types and 22 architectures is compiled with static_asserts computed independently by the generator and executed against the run-time conversion; the constant-mask APIs are compared with the run-time forms through the shared index-level reference.", "6 C19", "gen/gen_const.py+xvdrive"),
    "C20": ("Exhaustive in the strict sense: for each of the 25 x86/emulated architectures a generated program asserts, at compile time, the geometry of every (architecture, element type, lane count) triple (about 1170 obligations per architecture), the list order against an independent parent table, arch_list::alignment(), make_sized_batch for N = 1..128 and the trait widths; an aligned load at exactly alignment() is executed on every runnable architecture. The same obligations (with the ARM list order and ILP32 type sizes) are compiled for seven cross-target programs (neon, neon64, i8mm<neon64>, sve 128/256/512, wasm) with clang -fsyntax-only against the host's libstdc++ headers and the shims of /verif/shim: compile-time obligations only, nothing is executed for them.", "6 C20", "gen/gen_geometry.py"),
}

REASON_WIP = "check not built yet in this round (design in DESIGN.md section 6); not claimed until its explorer has run to completion on the unchanged tree"


def main():
    props = [json.loads(l) for l in open(os.path.join(VERIF, "properties.jsonl"))]
    hooks = subprocess.run(["git", "-C", "/repo", "log", "--format=%h", "--grep=^verif hook"], stdout=subprocess.PIPE, text=True).stdout.split()
    checks = []
    for p in props:
        pid = p["id"]
        if pid not in CLAIMED:
            continue
        text, ref, engine = CLAIMED[pid]
        checks.append({
            "property_id": pid,
            "quick_cmd": "bin/vcheck %s quick" % pid,
            "thorough_cmd": "bin/vcheck %s thorough" % pid,
            "evidence_file": "evidence/%s.json" % pid,
            "replay_cmd_template": "bin/vcheck %s --replay {path}" % pid,
            "engine": engine,
            "level_claimed": {"category": "model_checking", "text": text, "design_ref": ref},
            "level_note": NOTE,
            "technique": TECH,
        })
    m = {
        "version": 1,
        "setup_cmd": "bin/vcheck setup",
        "hooks": {
            "guard": "XSIMD_VERIF",
            "enable": "-DXSIMD_VERIF -DXSIMD_VERIF_HOOKS_HEADER='\"/verif/harness/xv_hooks.hpp\"' (added by engine/vlib.py to every harness compile; the header defines the loop-tick and CPUID/XGETBV macros)",
            "baseline_off_cmd": "cmake --build /repo/_build -j16 && ctest --test-dir /repo/_build -j8 --timeout 900",
            "source_commits": list(reversed(hooks)),
            "add_only": True,
        },
        "engines": [
            {"name": "xvcpuid", "path": "harness/h_cpuid.cpp", "serves_properties": ["C15"],
             "kind_free_text": "exhaustive enumeration of CPUID/XGETBV configurations through the injected source; generated dispatch programs (gen/gen_dispatch.py)"},
            {"name": "xvalloc", "path": "harness/h_alloc.cpp", "serves_properties": ["C18"],
             "kind_free_text": "explicit-state enumeration of allocator histories on the real code (ASan build), deviation-bounded fault injection by interposing posix_memalign"},
            {"name": "gen/gen_geometry.py", "path": "gen/gen_geometry.py", "serves_properties": ["C20"],
             "kind_free_text": "program generator: every (architecture, type, lane-count) triple becomes a static_assert; the compiler enumerates them all"},
            {"name": "xvmem", "path": "harness/h_mem.cpp", "serves_properties": ["C04"],
             "kind_free_text": "one executable per architecture: exhaustive enumeration of pointer placements against mmap guard pages, byte-level memory model"},
            {"name": "xvmath", "path": "engine/xvmath.cpp", "serves_properties": sorted(k for k, v in CLAIMED.items() if "xvmath" in v[2]),
             "kind_free_text": "bounded exhaustive explorer for the elementary functions: complete sweeps of stated argument spaces (all 2^32 float32 arguments in the thorough tier) in two stream orders over every architecture's kernel, ulp-bound and graceful-degradation oracles, MPFR arbiter, loop-tick accounting, hang watchdog"},
            {"name": "xvdrive", "path": "engine/xvdrive.cpp", "serves_properties": sorted(k for k, v in CLAIMED.items() if "xvdrive" in v[2]),
             "kind_free_text": "explicit-state bounded exhaustive explorer: dlopens one harness object per architecture (each compiled with exactly that ISA's flags), enumerates operand x lane-placement x architecture states with an odometer, checks refinement of the reference model on every transition, replays single batches"},
        ],
        "checks": checks,
        "not_applicable": [{"property_id": p["id"], "reason": REASON_WIP} for p in props if p["id"] not in CLAIMED],
        "notes": "All checks run as bin/vcheck <id> [quick|thorough] from /verif; they rebuild the per-architecture harness objects from /repo's working tree (content-hash make-like cache under build/). known_findings.json lists recorded defects (open) and repaired ones (fixed).",
    }
    json.dump(m, open(os.path.join(VERIF, "MANIFEST.json"), "w"), indent=1)
    print("MANIFEST.json: %d checks, %d not_applicable" % (len(checks), len(m["not_applicable"])))


if __name__ == "__main__":
    main()
