// Known-finding classes for the elementary functions (see classify.hpp for the discipline): a failing
// point is a KNOWN-FINDING only inside the listed input class AND within the listed signature.
#pragma once
#include <complex>

#include "mathlib.hpp"

namespace xv
{
    enum
    {
        MF_TRIG64_NEAR_MULTIPLE = 0,
        MF_TGAMMA_POLE_UNDERFLOW,
        MF_LGAMMA32_TINY_NEGATIVE,
        MF_LGAMMA_REFLECTION_CANCEL,
        MF_CTANH_NEAR_POLE,
        MF_CPOW_LARGE_EXPONENT_LOG,
    };
    inline const std::vector<FindingDef>& math_findings()
    {
        static const std::vector<FindingDef> f = {
            { "trig-f64-near-multiple-of-half-pi", "double sin/cos/tan/sincos lose relative accuracy when the argument is within 2^-30 |x| of a multiple of pi/2 (three-term Cody-Waite reduction)" },
            { "tgamma-pole-intermediate-overflow", "tgamma next to a pole below -large_limit returns 0: Gamma(|x|) overflows inside the reflection formula although the result is a normal number" },
            { "lgamma-f32-tiny-negative", "float lgamma for -2^-67 < x < 0: the product x*sin(pi x) underflows, result +inf (product flushed to 0) or off by less than ln 2 (product denormal)" },
            { "lgamma-reflection-cancellation", "lgamma for negative x subtracts lgamma(|x|) from a logarithm of similar size: the error is a few ulp of lgamma(|x|), more than the bound in ulp of the (smaller) result" },
            { "complex-tan-tanh-near-pole", "complex tan/tanh next to a pole: the denominator cosh(2x) + cos(2y) cancels, the relative error grows like |result|^2 eps" },
            { "complex-pow-real-exponent", "complex pow(z, y) = exp(y log z): the relative error grows like |y ln|z|| eps" },
        };
        return f;
    }

    // distance of x to the nearest multiple of pi/2, computed with MPFR
    inline long double dist_to_half_pi_multiple(long double x)
    {
        mpfr_t a, p, k, r;
        mpfr_init2(a, 256);
        mpfr_init2(p, 256);
        mpfr_init2(k, 256);
        mpfr_init2(r, 256);
        mpfr_set_ld(a, x, MPFR_RNDN);
        mpfr_const_pi(p, MPFR_RNDN);
        mpfr_div_2ui(p, p, 1, MPFR_RNDN);
        mpfr_div(k, a, p, MPFR_RNDN);
        mpfr_round(k, k);
        mpfr_mul(k, k, p, MPFR_RNDN);
        mpfr_sub(r, a, k, MPFR_RNDN);
        long double d = fabsl(mpfr_get_ld(r, MPFR_RNDN));
        mpfr_clear(a);
        mpfr_clear(p);
        mpfr_clear(k);
        mpfr_clear(r);
        return d;
    }

    inline int classify_math(const Violation& v, const MFun& f, long double x, long double y, long double exact, long double obs, const Judge& J)
    {
        (void)y;
        const std::string fn = f.name;
        const bool is32 = v.elem == XV_F32;
        if (!is32 && (fn == "sin" || fn == "cos" || fn == "tan" || fn == "sincos.sin" || fn == "sincos.cos") && J.v == V_FAIL_ACC && std::isfinite(J.err))
        {
            long double ax = fabsl(x);
            if (ax <= 823549.7L) // 2^18 pi: the Cody-Waite tiers (Payne-Hanek beyond)
            {
                long double r = dist_to_half_pi_multiple(x);
                if (r < ax * 0x1p-30L && r > 0)
                {
                    long double allowed = 4.5L + ax * 0x1p-49L / r;
                    if (J.err <= (double)allowed)
                        return MF_TRIG64_NEAR_MULTIPLE;
                }
            }
        }
        if (fn == "tgamma" && x < (is32 ? -35.04L : -171.6L) && obs == 0 && fabsl(exact) >= (is32 ? 4 * (long double)FLT_MIN : 4 * (long double)DBL_MIN))
        {
            // next to a pole: |x - round(x)| tiny compared with the magnitude that keeps the result normal
            return MF_TGAMMA_POLE_UNDERFLOW;
        }
        if (fn == "lgamma" && is32 && x < 0 && x > -0x1p-67L)
        {
            if (obs > 0 && std::isinf((double)obs))
                return MF_LGAMMA32_TINY_NEGATIVE;
            if (std::isfinite((double)obs) && fabsl(obs - exact) <= 0.75L) // the underflowing product keeps at least one bit: log error < ln 2
                return MF_LGAMMA32_TINY_NEGATIVE;
        }
        if (fn == "lgamma" && x < 0 && std::isfinite((double)obs))
        {
            int sg;
            long double w = fabsl(lgammal_r(-x, &sg));
            long double u = is32 ? ulp_of<float>(w > 1 ? w : 1.0L) : ulp_of<double>(w > 1 ? w : 1.0L);
            if (fabsl(obs - exact) <= 4 * u)
                return MF_LGAMMA_REFLECTION_CANCEL;
        }
        return -1;
    }
    inline int classify_special(const Violation& v, const std::string& fn, long double x, long double obs)
    {
        (void)v;
        (void)fn;
        (void)x;
        (void)obs;
        return -1;
    }
    // y: the real exponent of c.pow (0 otherwise)
    inline int classify_complex(const Violation& v, const std::string& fn, std::complex<long double> z, std::complex<long double> exact, std::complex<long double> obs, long double y = 0)
    {
        const long double eps = v.elem == XV_F32 ? 0x1p-23L : 0x1p-52L;
        const long double mw = std::abs(exact);
        const long double err = fmaxl(fabsl(obs.real() - exact.real()), fabsl(obs.imag() - exact.imag())) / (eps * (mw > 1 ? mw : 1.0L));
        if ((fn == "c.tan" || fn == "c.tanh") && mw > 4 && std::isfinite((double)err) && err <= 32 + mw * mw / 2)
            return MF_CTANH_NEAR_POLE;
        if (fn == "c.pow" && std::isfinite((double)err) && std::abs(z) > 0 && err <= 32 + 2 * fabsl(y * logl(std::abs(z))))
            return MF_CPOW_LARGE_EXPONENT_LOG;
        return -1;
    }
    inline int classify_math_ticks(const Violation& v, const MFun& f, unsigned ticks)
    {
        (void)v;
        (void)f;
        (void)ticks;
        return -1;
    }
}
