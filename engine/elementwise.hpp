// The element-wise explorer: enumerates operand spaces completely, runs every architecture's real
// kernel on every point and compares each lane with the reference model (DESIGN.md 3.2, 3.3).
#pragma once
#include <dlfcn.h>

#include <algorithm>
#include <csetjmp>

#include "alphabet.hpp"
#include "util.hpp"
#include "xv_abi.h"

namespace xv
{
    // ---------------------------------------------------------------------------------------
    // reference-model plumbing
    // ---------------------------------------------------------------------------------------
    enum : uint8_t
    {
        F_SKIP = 1, // precondition of the property not met: nothing is demanded
        F_ALT = 2, // e2 is acceptable as well
        F_ZSIGN = 4, // a zero of either sign is acceptable when the expected value is a zero
        F_SKIP1 = 8, // second output not demanded
        F_EXACT = 16, // bit-exact even for NaN (operations that act on the bit pattern only)
        F_RANGE = 32, // floating result must lie in [e1, e2] as a number
    };

    template <class T>
    struct Ops
    {
        T a {}, b {}, c {};
        bool m = false, m2 = false;
        long p = 0;
    };
    template <class T>
    struct Res
    {
        T v {}, alt {};
        T v2 {}; // second output of element type (sincos)
        bool has_alt = false, skip = false, zsign = false, skip1 = false, exact = false;
        bool bv = false; // Boolean result
        int64_t iv = 0; // integer second result (frexp) or integer result of another width
    };

    struct RefArgs
    {
        const xv_op* sig;
        const void* const* in;
        void* const* e1;
        void* const* e2;
        uint8_t* flags;
        size_t n;
        long param;
        int lanes; // batch size of the implementation being judged (only batch-wise references use it)
    };
    struct SanArgs
    {
        const xv_op* sig;
        void* const* in;
        size_t n;
        long param;
    };
    typedef void (*RefLoop)(const RefArgs&);
    typedef void (*SanLoop)(const SanArgs&);

    template <class T>
    inline void gather_ops(const xv_op* sig, const void* const* in, size_t i, Ops<T>& x)
    {
        int kv = 0, kb = 0;
        for (int k = 0; k < sig->nin; ++k)
        {
            if (sig->in_t[k] == XV_BOOL)
            {
                bool b = ((const uint8_t*)in[k])[i] != 0;
                (kb++ == 0 ? x.m : x.m2) = b;
            }
            else
            {
                T val;
                memcpy(&val, (const char*)in[k] + i * sizeof(T), sizeof(T));
                (kv == 0 ? x.a : kv == 1 ? x.b : x.c) = val;
                ++kv;
            }
        }
    }

    inline void store_int(void* p, int type, size_t i, int64_t v)
    {
        int sz = xv_type_size[type];
        memcpy((char*)p + i * (size_t)sz, &v, (size_t)sz); // little endian truncation
    }

    template <class T, template <class> class R>
    void ref_loop(const RefArgs& A)
    {
        const xv_op* sig = A.sig;
        for (size_t i = 0; i < A.n; ++i)
        {
            Ops<T> x;
            x.p = A.param;
            gather_ops<T>(sig, A.in, i, x);
            Res<T> r;
            R<T>::f(x, r);
            if (sig->out_t[0] == XV_BOOL)
            {
                ((uint8_t*)A.e1[0])[i] = r.bv ? 1 : 0;
                ((uint8_t*)A.e2[0])[i] = r.bv ? 1 : 0;
            }
            else if (sig->out_t[0] == sig->elem)
            {
                ((T*)A.e1[0])[i] = r.v;
                ((T*)A.e2[0])[i] = r.has_alt ? r.alt : r.v;
            }
            else
            {
                store_int(A.e1[0], sig->out_t[0], i, r.iv);
                store_int(A.e2[0], sig->out_t[0], i, r.iv);
            }
            if (sig->nout > 1)
            {
                if (sig->out_t[1] == sig->elem)
                {
                    ((T*)A.e1[1])[i] = r.v2;
                    ((T*)A.e2[1])[i] = r.v2;
                }
                else
                {
                    store_int(A.e1[1], sig->out_t[1], i, r.iv);
                    store_int(A.e2[1], sig->out_t[1], i, r.iv);
                }
            }
            A.flags[i] = (uint8_t)((r.skip ? F_SKIP : 0) | (r.has_alt ? F_ALT : 0) | (r.zsign ? F_ZSIGN : 0) | (r.skip1 ? F_SKIP1 : 0) | (r.exact ? F_EXACT : 0));
        }
    }

    // sanitiser: S<T>::f(Ops<T>&) may rewrite operands that would make the *kernel* trap
    // (integer division by zero, MIN / -1); the reference still marks such lanes F_SKIP.
    template <class T, template <class> class S>
    void san_loop(const SanArgs& A)
    {
        const xv_op* sig = A.sig;
        for (size_t i = 0; i < A.n; ++i)
        {
            Ops<T> x;
            x.p = A.param;
            gather_ops<T>(sig, A.in, i, x);
            Ops<T> y = x;
            S<T>::f(y);
            int kv = 0;
            for (int k = 0; k < sig->nin; ++k)
            {
                if (sig->in_t[k] == XV_BOOL)
                    continue;
                T val = kv == 0 ? y.a : kv == 1 ? y.b : y.c;
                memcpy((char*)A.in[k] + i * sizeof(T), &val, sizeof(T));
                ++kv;
            }
        }
    }

    struct OpSpec
    {
        std::string name;
        std::string space; // operand-space key
        std::string fp_space; // operand-space key for float/double instantiations (if different)
        RefLoop ref[XV_NTYPES] = {};
        SanLoop san[XV_NTYPES] = {};
        int param_kind = 0; // 0 none, 1 = every count in [0,bits), 2 = small scalar set
        bool batchwise = false; // the expected value of a lane depends on the whole batch (reductions, mask summaries)
    };

    inline std::map<std::string, OpSpec>& specs()
    {
        static std::map<std::string, OpSpec> s;
        return s;
    }

    template <template <class> class R>
    void set_int_refs(OpSpec& s)
    {
        s.ref[XV_I8] = &ref_loop<int8_t, R>;
        s.ref[XV_U8] = &ref_loop<uint8_t, R>;
        s.ref[XV_I16] = &ref_loop<int16_t, R>;
        s.ref[XV_U16] = &ref_loop<uint16_t, R>;
        s.ref[XV_I32] = &ref_loop<int32_t, R>;
        s.ref[XV_U32] = &ref_loop<uint32_t, R>;
        s.ref[XV_I64] = &ref_loop<int64_t, R>;
        s.ref[XV_U64] = &ref_loop<uint64_t, R>;
    }
    template <template <class> class R>
    void set_fp_refs(OpSpec& s)
    {
        s.ref[XV_F32] = &ref_loop<float, R>;
        s.ref[XV_F64] = &ref_loop<double, R>;
    }
    template <template <class> class S>
    void set_int_sans(OpSpec& s)
    {
        s.san[XV_I8] = &san_loop<int8_t, S>;
        s.san[XV_U8] = &san_loop<uint8_t, S>;
        s.san[XV_I16] = &san_loop<int16_t, S>;
        s.san[XV_U16] = &san_loop<uint16_t, S>;
        s.san[XV_I32] = &san_loop<int32_t, S>;
        s.san[XV_U32] = &san_loop<uint32_t, S>;
        s.san[XV_I64] = &san_loop<int64_t, S>;
        s.san[XV_U64] = &san_loop<uint64_t, S>;
    }
    template <template <class> class S>
    void set_fp_sans(OpSpec& s)
    {
        s.san[XV_F32] = &san_loop<float, S>;
        s.san[XV_F64] = &san_loop<double, S>;
    }

    inline const OpSpec* find_spec(const std::string& opname)
    {
        std::string n = opname;
        for (;;)
        {
            auto it = specs().find(n);
            if (it != specs().end())
                return &it->second;
            size_t d = n.rfind('.');
            if (d == std::string::npos)
                return nullptr;
            n.resize(d);
        }
    }

    // ---------------------------------------------------------------------------------------
    // operand spaces
    // ---------------------------------------------------------------------------------------
    struct SubSpace
    {
        std::string label;
        std::vector<Alpha> al; // one per operand (in harness operand order)
        std::vector<int> order; // operand indices from slowest to fastest varying
        int shifts = 1; // every tuple is visited at `shifts` consecutive lane offsets
        uint64_t ntuples = 0, stride = 0;
        std::vector<std::vector<uint64_t>> literal; // replay: operand k of stream position p is literal[k][p % size]
        int witness_L = 0; // lane-aware space: batches of exactly witness_L lanes (witness placements, see decode_witness)
        int witness_type = 0;
        std::vector<uint64_t> witness_vals, witness_vals2, witness_lattice;
        uint64_t wit_a = 0, wit_b = 0, wit_c = 0; // number of batches per section
        int placement_L = 0; // C13: pairs of batches [subject in lane k among companions][broadcast of the subject]
        std::vector<std::vector<uint64_t>> place_subj; // subject tuples (one value per operand)
        std::vector<std::vector<uint64_t>> place_comp; // companion values per operand
        uint64_t place_nc = 0;
        int perm_L = 0, perm_mode = 0, perm_es = 0; // C05: lane tags (1), + run-time index vectors (2), + Boolean masks (3)
        std::vector<std::vector<uint8_t>> perm_index;
        std::vector<uint64_t> perm_masks;
        bool perm_fp = false;
        int mask_kind = 0; // Boolean operands generated from 64-bit mask words, one word per 64 stream positions
        uint64_t mask_groups = 0;
        static inline uint64_t rev16(uint64_t x)
        {
            uint64_t r = 0;
            for (int i = 0; i < 16; ++i)
                if (x & (1ull << i))
                    r |= 1ull << (15 - i);
            return r;
        }
        static inline uint64_t special16(uint64_t i, uint64_t a)
        {
            static const uint64_t S[14] = { 0x0000, 0xFFFF, 0x0001, 0x8000, 0x5555, 0xAAAA, 0x00FF, 0xFF00, 0x0F0F, 0xF0F0, 0x3333, 0xCCCC, 0x7FFF, 0xFFFE };
            return i < 14 ? S[i] : (i == 14 ? (~a & 0xFFFF) : a);
        }
        // mask word of operand k in group g
        inline uint64_t maskword(uint64_t g, int k) const
        {
            uint64_t c0, c1, c2, c3;
            if (mask_kind == 1)
            { // one operand: chunk 0 enumerates all 2^16 masks
                c0 = g & 0xFFFF;
                c1 = (g * 0x9E37 + 1) & 0xFFFF;
                c2 = ~g & 0xFFFF;
                c3 = rev16(g & 0xFFFF);
            }
            else if (mask_kind == 2)
            { // two operands: the low 8 bits enumerate all pairs of 8-bit masks
                uint64_t a = g & 0xFF, b = (g >> 8) & 0xFF;
                uint64_t x = k == 0 ? a : b, y = k == 0 ? b : a;
                c0 = x | ((mix64(g + 77 * (uint64_t)k) & 0xFF) << 8);
                c1 = (y << 8) | x;
                c2 = (~x & 0xFF) | (rev16(y) & 0xFF00);
                c3 = mix64(g * 2 + (uint64_t)k) & 0xFFFF;
            }
            else
            { // two operands: all 2^16 masks x 16 special partners in chunk 0
                uint64_t a = g & 0xFFFF, i = (g >> 16) & 15;
                uint64_t b = special16(i, a);
                uint64_t x = k == 0 ? a : b, y = k == 0 ? b : a;
                c0 = x;
                c1 = y;
                c2 = rev16(x);
                c3 = ~y & 0xFFFF;
            }
            return c0 | (c1 << 16) | (c2 << 32) | (c3 << 48);
        }
        void finish()
        {
            if (!literal.empty())
            {
                ntuples = literal[0].size();
                shifts = 1;
                stride = (ntuples + 63) & ~63ull;
                return;
            }
            if (witness_L)
            {
                const uint64_t L = (uint64_t)witness_L;
                wit_a = 4 * witness_vals.size() * L;
                wit_b = 4 * witness_vals2.size() * witness_vals2.size() * (L * (L - 1) / 2);
                wit_c = witness_lattice.empty() ? 0 : (witness_lattice.size() + L - 1) / L * L; // every lattice value at every lane
                ntuples = wit_a + wit_b + wit_c;
                shifts = 1;
                stride = (ntuples * L + 63) & ~63ull;
                // keep the stream a whole number of L*L groups (haddp consumes lanes*lanes elements per call)
                uint64_t g = L * L;
                if (g < 64)
                    g = 64;
                stride = (stride + g - 1) / g * g;
                return;
            }
            if (mask_kind)
            {
                ntuples = mask_groups;
                shifts = 1;
                stride = mask_groups * 64;
                return;
            }
            if (perm_L)
            {
                const uint64_t L = (uint64_t)perm_L;
                uint64_t nb = perm_mode == 1 ? 2 * L : perm_mode == 2 ? 2 * perm_index.size() : 2 * perm_masks.size();
                ntuples = nb;
                shifts = 1;
                stride = nb * L;
                uint64_t g = L * L < 64 ? 64 : L * L;
                stride = (stride + g - 1) / g * g;
                return;
            }
            if (placement_L)
            {
                place_nc = 1;
                for (auto& c : place_comp)
                    if (c.size() + 1 > place_nc)
                        place_nc = c.size() + 1;
                ntuples = place_subj.size() * (uint64_t)placement_L * place_nc; // (subject, lane, companion class) triples
                shifts = 1;
                stride = ntuples * 2 * (uint64_t)placement_L;
                stride = (stride + 63) & ~63ull;
                return;
            }
            if (order.empty())
                for (size_t k = 0; k < al.size(); ++k)
                    order.push_back((int)k);
            ntuples = 1;
            for (auto& a : al)
                ntuples *= a.size();
            stride = (ntuples + 64 + 63) & ~63ull;
        }
        uint64_t length() const { return stride * (uint64_t)shifts; }
        // small signed integer -> bit pattern of the witness element type
        inline uint64_t wit_small(int64_t v) const
        {
            if (witness_type == XV_F32)
            {
                float f = (float)v;
                uint32_t u;
                memcpy(&u, &f, 4);
                return u;
            }
            if (witness_type == XV_F64)
            {
                double d = (double)v;
                uint64_t u;
                memcpy(&u, &d, 8);
                return u;
            }
            int sz = xv_type_size[witness_type];
            return sz == 8 ? (uint64_t)v : ((uint64_t)v & ((1ull << (sz * 8)) - 1));
        }
        inline uint64_t wit_background(uint64_t bg, uint64_t lane) const
        {
            switch (bg)
            {
            case 0:
                return wit_small(0);
            case 1:
                return wit_small((int64_t)lane + 1);
            case 2:
                return wit_small(3);
            default:
                return wit_small((lane & 1) ? 2 : -2);
            }
        }
        // section A: one witness value at one lane over a background; section B: two witnesses at lanes p<q;
        // section C: the lattice, each value passing through every lane
        inline uint64_t decode_witness(uint64_t pos) const
        {
            const uint64_t L = (uint64_t)witness_L;
            uint64_t b = (pos / L) % ntuples, lane = pos % L;
            if (b < wit_a)
            {
                uint64_t p = b % L, w = (b / L) % witness_vals.size(), bg = b / (L * witness_vals.size());
                return lane == p ? witness_vals[w] : wit_background(bg, lane);
            }
            b -= wit_a;
            if (b < wit_b)
            {
                const uint64_t np = L * (L - 1) / 2, nw = witness_vals2.size();
                uint64_t pr = b % np, w1 = (b / np) % nw, w2 = (b / (np * nw)) % nw, bg = b / (np * nw * nw);
                // pair index -> (p, q), p < q
                uint64_t p = 0;
                while (pr >= L - 1 - p)
                {
                    pr -= L - 1 - p;
                    ++p;
                }
                uint64_t q = p + 1 + pr;
                if (lane == p)
                    return witness_vals2[w1];
                if (lane == q)
                    return witness_vals2[w2];
                return wit_background(bg, lane);
            }
            b -= wit_b;
            // batch b of section C: lattice values b + lane*stride' so that consecutive batches rotate the lattice through the lanes
            const uint64_t N = witness_lattice.size();
            return witness_lattice[(b + lane * ((N / L) | 1)) % N];
        }
        // operand values of stream position p
        inline void decode(uint64_t p, uint64_t* vals) const
        {
            if (!literal.empty())
            {
                for (size_t k = 0; k < literal.size(); ++k)
                    vals[k] = literal[k][p % literal[k].size()];
                return;
            }
            if (mask_kind)
            {
                for (size_t k = 0; k < al.size(); ++k)
                    vals[k] = (maskword(p >> 6, (int)k) >> (p & 63)) & 1;
                return;
            }
            if (witness_L)
            {
                vals[0] = decode_witness(p);
                return;
            }
            if (perm_L)
            {
                const uint64_t L = (uint64_t)perm_L;
                const uint64_t b = (p / L) % ntuples, lane = p % L;
                uint64_t a, row, item;
                if (perm_mode == 1)
                {
                    a = (b / L) % 2;
                    row = b % L;
                    item = 0;
                }
                else
                {
                    a = b % 2;
                    row = (b / 2) % L;
                    item = b / 2;
                }
                for (size_t o = 0; o < al.size(); ++o)
                {
                    if (o == 1 && perm_mode == 2)
                    {
                        vals[o] = perm_index[item][lane];
                        continue;
                    }
                    if (o == 1 && perm_mode == 3)
                    {
                        vals[o] = (perm_masks[item] >> lane) & 1;
                        continue;
                    }
                    // lane tag: every byte of the batch distinct (assignment 0) / signalling-NaN payloads or high-bit patterns (1)
                    uint64_t v = 0;
                    for (int j = 0; j < perm_es; ++j)
                    {
                        uint64_t byte = (37 * row + 3 * (lane * (uint64_t)perm_es + (uint64_t)j) + 192 * o + 1) & 0xFF;
                        v |= byte << (8 * j);
                    }
                    if (a == 1)
                    {
                        if (perm_fp)
                        {
                            // exponent all ones, quiet bit clear, payload = lane + 1 (+ row in the next bits), sign = operand
                            const int mant = perm_es == 4 ? 23 : 52;
                            v = ((perm_es == 4 ? 0xFFull : 0x7FFull) << mant) | (lane + 1) | (row << 8) | ((uint64_t)o << (perm_es * 8 - 1));
                        }
                        else
                            v = ~v & (perm_es == 8 ? ~0ull : ((1ull << (perm_es * 8)) - 1));
                    }
                    vals[o] = v;
                }
                return;
            }
            if (placement_L)
            {
                const uint64_t L = (uint64_t)placement_L;
                const uint64_t pair = (p / (2 * L)) % ntuples, ee = p % (2 * L);
                const bool placed = ee < L;
                const uint64_t lane = ee % L;
                const uint64_t k = pair % L, c = (pair / L) % place_nc, s = pair / (L * place_nc);
                for (size_t o = 0; o < al.size(); ++o)
                {
                    if (!placed || lane == k)
                        vals[o] = place_subj[s][o];
                    else
                    {
                        const auto& C = place_comp[o];
                        vals[o] = c + 1 < place_nc ? C[c % C.size()] : C[(lane + k) % C.size()];
                    }
                }
                return;
            }
            uint64_t k = p / stride, q = p % stride;
            uint64_t t = (q + ntuples - (k % ntuples)) % ntuples;
            for (size_t j = order.size(); j-- > 0;)
            {
                const Alpha& a = al[(size_t)order[j]];
                uint64_t s = a.size();
                vals[order[j]] = a.at(t % s);
                t /= s;
            }
        }
    };

    struct Tier
    {
        bool thorough = false;
        uint64_t seed = 0;
        int nseed = 64;
    };

    // ---------------------------------------------------------------------------------------
    // modules (one per architecture and harness)
    // ---------------------------------------------------------------------------------------
    struct Module
    {
        void* handle = nullptr;
        const xv_module* m = nullptr;
        std::string arch, path;
    };

    inline Module load_module(const std::string& path)
    {
        Module M;
        M.path = path;
        M.handle = dlopen(path.c_str(), RTLD_NOW | RTLD_LOCAL);
        if (!M.handle)
        {
            fprintf(stderr, "dlopen %s: %s\n", path.c_str(), dlerror());
            exit(2);
        }
        auto get = (const xv_module* (*)())dlsym(M.handle, "xv_get_module");
        if (!get)
        {
            fprintf(stderr, "no xv_get_module in %s\n", path.c_str());
            exit(2);
        }
        M.m = get();
        M.arch = M.m->arch;
        return M;
    }

    // ---------------------------------------------------------------------------------------
    // violations
    // ---------------------------------------------------------------------------------------
    struct Violation
    {
        std::string prop, op, arch, oracle, note;
        int elem = 0, lane = 0, lanes = 0, out_slot = 0, out_type = 0;
        long param = 0;
        int nin = 0;
        int in_t[4] = {};
        std::vector<uint64_t> in[4]; // the whole batch, every lane
        uint64_t expected = 0, alt = 0, observed = 0;
        bool has_alt = false;
        std::string finding; // id of the known-finding class it falls into ("" = none)
    };

    // light-weight description of one failing lane, handed to the known-finding classifier
    struct VCtx
    {
        const std::string* prop;
        const std::string* op;
        const std::string* arch;
        int elem, lane, lanes, out_slot, out_type;
        long param;
        int nin;
        const int* in_t;
        uint64_t in[4]; // the failing lane's operands (bit patterns)
        uint64_t expected, alt, observed;
    };
    // returns the index of a finding class in findings(), or -1
    typedef int (*Classifier)(const VCtx&);
    struct FindingDef
    {
        const char* id;
        const char* what;
    };
    const std::vector<FindingDef>& findings(); // defined in classify.hpp

    struct ViolationLog
    {
        std::mutex mu;
        std::vector<Violation> detailed; // capped
        std::map<std::string, uint64_t> count_by_key; // "op|type|arch|finding" -> count
        std::map<std::string, uint64_t> count_by_finding;
        uint64_t total = 0, unknown = 0;
        Classifier classify = nullptr;
        std::set<std::string> known_open;
        std::vector<char> open_idx; // per finding index: listed as open?
        void prepare()
        {
            open_idx.assign(findings().size(), 0);
            for (size_t i = 0; i < findings().size(); ++i)
                open_idx[i] = known_open.count(findings()[i].id) ? 1 : 0;
        }
        // finding slot of a failing lane: 0 = unknown (a violation), 1+k = open known finding k
        int slot(const VCtx& c) const
        {
            int f = classify ? classify(c) : -1;
            if (f >= 0 && open_idx[(size_t)f])
                return 1 + f;
            return 0;
        }
        void add_detailed(Violation&& v)
        {
            std::lock_guard<std::mutex> g(mu);
            if (detailed.size() < 4000)
                detailed.push_back(std::move(v));
        }
    };

    // assert() inside a kernel: "unsupported arch/op combination" means the library does not accept the
    // combination (found only at run time); any other failed assertion is a contract violation by the kernel.
    struct AssertTrap
    {
        sigjmp_buf env;
        bool armed = false;
        char msg[300];
    };
    inline AssertTrap& assert_trap()
    {
        static thread_local AssertTrap t;
        return t;
    }
    // hang watchdog (xvdrive): every worker publishes which kernel call it is in and since when; a call that does not
    // return within the limit is reported as a violation ("does not return") instead of blocking the check for ever
    struct HangSlot
    {
        std::atomic<double> t0 { 0 };
        std::atomic<const xv_op*> op { nullptr };
        std::atomic<int> module { -1 };
        std::atomic<long> param { 0 };
    };
    inline HangSlot* hang_slots()
    {
        static HangSlot s[256];
        return s;
    }
    inline HangSlot& my_hang_slot()
    {
        static std::atomic<int> next { 0 };
        static thread_local HangSlot* p = &hang_slots()[next++ % 256];
        return *p;
    }
    // CPU time of this thread over one array-kernel call (a block of at most a few 10^5 lane operations: milliseconds for
    // every operation of the library). A call above the limit means work that grows with the magnitude of an argument (a loop
    // or recursion over a data-dependent bound); thread CPU time does not count the time the thread was descheduled.
    static constexpr double CALL_CPU_LIMIT_S = 0.5;
    inline std::atomic<uint64_t>& max_call_cpu_us()
    {
        static std::atomic<uint64_t> m { 0 };
        return m;
    }
    inline double& last_call_cpu_s()
    {
        static thread_local double v = 0;
        return v;
    }
    // runs one array kernel; returns 0 normally, 1 = unsupported combination, 2 = other assertion failure, 3 = over the CPU-time limit
    inline int guarded_call(xv_fn fn, const void* const* in, void* const* out, size_t n, xv_ctx* ctx, const xv_op* op = nullptr, int module = -1)
    {
        AssertTrap& T = assert_trap();
        HangSlot& H = my_hang_slot();
        H.op = op;
        H.module = module;
        H.param = ctx ? ctx->param : 0;
        H.t0 = now_s();
        int tr = sigsetjmp(T.env, 0);
        if (tr == 0)
        {
            timespec c0, c1;
            clock_gettime(CLOCK_THREAD_CPUTIME_ID, &c0);
            T.armed = true;
            fn(in, out, n, ctx);
            T.armed = false;
            H.t0 = 0;
            clock_gettime(CLOCK_THREAD_CPUTIME_ID, &c1);
            const double cpu = (double)(c1.tv_sec - c0.tv_sec) + 1e-9 * (double)(c1.tv_nsec - c0.tv_nsec);
            last_call_cpu_s() = cpu;
            const uint64_t us = (uint64_t)(cpu * 1e6);
            uint64_t cur = max_call_cpu_us().load();
            while (us > cur && !max_call_cpu_us().compare_exchange_weak(cur, us))
            {
            }
            return cpu > CALL_CPU_LIMIT_S ? 3 : 0;
        }
        T.armed = false;
        H.t0 = 0;
        return tr;
    }

    inline bool is_fp_type(int t) { return t == XV_F32 || t == XV_F64; }
    inline bool bits_is_nan(uint64_t b, int t)
    {
        if (t == XV_F32)
            return (b & 0x7F800000u) == 0x7F800000u && (b & 0x007FFFFFu);
        if (t == XV_F64)
            return (b & 0x7FF0000000000000ull) == 0x7FF0000000000000ull && (b & 0x000FFFFFFFFFFFFFull);
        return false;
    }
    inline double bits_to_double(uint64_t b, int t)
    {
        if (t == XV_F32)
        {
            uint32_t u = (uint32_t)b;
            float f;
            memcpy(&f, &u, 4);
            return (double)f;
        }
        double d;
        memcpy(&d, &b, 8);
        return d;
    }
    inline bool bits_is_zero(uint64_t b, int t)
    {
        if (t == XV_F32)
            return (b & 0x7FFFFFFFu) == 0;
        if (t == XV_F64)
            return (b & 0x7FFFFFFFFFFFFFFFull) == 0;
        return b == 0;
    }

    // ---------------------------------------------------------------------------------------
    // plan
    // ---------------------------------------------------------------------------------------
    struct Impl
    {
        int module;
        const xv_op* op;
    };
    struct OpInst
    {
        const OpSpec* spec = nullptr;
        std::string name;
        std::string prop;
        long param = 0;
        bool skip_nan_inputs = false; // C17 speaks about non-NaN scalars only
        std::vector<Impl> impls;
        // statistics
        std::atomic<uint64_t> points { 0 }, compared { 0 }, skipped { 0 }, nontrivial { 0 }, mismatches { 0 };
        std::atomic<uint64_t> outbits[16]; // 1024-bit bitmap of result hashes (distinct-outcome estimate)
        std::unique_ptr<std::atomic<uint64_t>[]> vc; // [impl][finding slot] failing-lane counters
        size_t nslots = 0;
        std::unique_ptr<std::atomic<char>[]> saturated; // [impl]: too many unknown failures, comparison stopped
        void alloc_counters(size_t nfind)
        {
            nslots = nfind + 1;
            vc.reset(new std::atomic<uint64_t>[impls.size() * nslots]);
            for (size_t i = 0; i < impls.size() * nslots; ++i)
                vc[i] = 0;
            saturated.reset(new std::atomic<char>[impls.size()]);
            for (size_t i = 0; i < impls.size(); ++i)
                saturated[i] = 0;
        }
        OpInst()
        {
            for (auto& x : outbits)
                x = 0;
        }
        uint64_t distinct() const
        {
            uint64_t c = 0;
            for (auto& x : outbits)
                c += (uint64_t)__builtin_popcountll(x.load());
            return c;
        }
    };
    struct Group
    {
        xv_op sig; // signature shared by the ops of the group
        SubSpace sp;
        std::vector<std::unique_ptr<OpInst>> ops;
        uint64_t nblocks = 0;
    };

    static const size_t BLOCK = 1u << 14; // elements per block (multiple of 64)

    struct Sample
    {
        std::string op, type, arch;
        long param;
        std::vector<std::string> in;
        std::string expected, observed;
    };

    struct RunStats
    {
        uint64_t states = 0, transitions = 0, skipped = 0, nontrivial = 0;
        std::map<std::string, uint64_t> per_arch;
        std::map<std::string, uint64_t> per_op_distinct;
        std::map<std::string, uint64_t> per_op_points;
        std::vector<Sample> samples;
        bool exhaustive = true;
        std::vector<std::string> vacuous_ops;
        std::vector<std::string> rejected_at_run_time; // (op,type,arch) that assert "unsupported arch/op combination"
        std::vector<std::string> saturated; // (op,type,arch) whose comparison was stopped after 4096 unknown failures
    };

    struct Explorer
    {
        std::vector<Module> mods;
        std::vector<std::unique_ptr<Group>> groups;
        ViolationLog log;
        int nthreads = 16;
        double deadline = 0; // absolute time; 0 = none
        bool timing_only = false; // C14 over the exact operations: every call is executed and timed, results are not judged
        std::atomic<bool> expired { false };
        std::mutex sample_mu;
        std::vector<Sample> samples;

        struct Scratch
        {
            Buf in[4], san[4], e1[2], e2[2], out[2], flags;
        };

        // C13 for the exact operations: lane k of op(placed batch) must be bit-identical to lane 0 of op(broadcast batch),
        // and all lanes of the broadcast result identical.
        void run_placement(Scratch&, Group& G, OpInst& O, const void* const* use_in, void* const* out, size_t n, uint64_t start)
        {
            const xv_op& sig = G.sig;
            const size_t L = (size_t)G.sp.placement_L;
            for (size_t ii = 0; ii < O.impls.size(); ++ii)
            {
                Impl& im = O.impls[ii];
                if (O.saturated[ii] || (size_t)im.op->lanes != L)
                    continue;
                xv_ctx ctx;
                memset(&ctx, 0, sizeof ctx);
                ctx.param = O.param;
                ctx.aborted_at = -1;
                if (int tr = guarded_call(im.op->fn, use_in, out, n, &ctx, im.op, im.module))
                {
                    assert_failed(G, O, ii, tr);
                    continue;
                }
                if (timing_only)
                {
                    // every lane result is still folded into the outcome set (a vacuous driver stays visible)
                    for (size_t base = 0; base + 2 * L <= n; base += 2 * L)
                    {
                        const size_t osz0 = (size_t)xv_type_size[sig.out_t[0]];
                        uint64_t hsh = mix64(load_bits((const char*)out[0] + base * osz0, (int)osz0) + 0x1234567) & 1023;
                        O.outbits[hsh >> 6] |= 1ull << (hsh & 63);
                    }
                    O.compared += n;
                    continue;
                }
                uint64_t cmp = 0;
                for (size_t base = 0; base + 2 * L <= n; base += 2 * L)
                {
                    // position of this pair in the stream decides the subject lane
                    for (int o = 0; o < sig.nout; ++o)
                    {
                        const int ot = sig.out_t[o];
                        const size_t osz = (size_t)xv_type_size[ot];
                        const char* ob = (const char*)out[o];
                        const uint64_t ref0 = load_bits(ob + (base + L) * osz, (int)osz);
                        {
                            uint64_t hsh = mix64(ref0 + 0x1234567) & 1023;
                            O.outbits[hsh >> 6] |= 1ull << (hsh & 63);
                        }
                        for (size_t l = 0; l < L; ++l)
                        {
                            // broadcast batch: all lanes equal; placed batch: only the subject lane is judged
                            const uint64_t bl = load_bits(ob + (base + L + l) * osz, (int)osz);
                            bool ok = bl == ref0 || (is_fp_type(ot) && bits_is_nan(bl, ot) && bits_is_nan(ref0, ot));
                            ++cmp;
                            if (!ok)
                                report_placement(G, O, ii, use_in, base + L, l, o, ref0, bl, "broadcast batch: lane differs from lane 0");
                        }
                        // the subject lane of the placed batch (its index follows from the stream position of the pair)
                        const uint64_t pair = ((start + base) / (2 * L)) % G.sp.ntuples;
                        const size_t k = (size_t)(pair % L);
                        const uint64_t pk = load_bits(ob + (base + k) * osz, (int)osz);
                        bool ok = pk == ref0 || (is_fp_type(ot) && bits_is_nan(pk, ot) && bits_is_nan(ref0, ot));
                        ++cmp;
                        if (!ok)
                            report_placement(G, O, ii, use_in, base, k, o, ref0, pk, "subject lane among companions differs from the broadcast result");
                    }
                }
                O.compared += cmp;
                O.points += n;
            }
        }
        std::mutex rt_mu;
        std::set<std::string> rejected_at_run_time;
        void assert_failed(Group& G, OpInst& O, size_t ii, int kind)
        {
            Impl& im = O.impls[ii];
            O.saturated[ii] = 1; // no further calls of this (operation, architecture)
            const std::string key = O.name + "|" + xv_type_name[G.sig.elem] + "|" + mods[(size_t)im.module].arch;
            if (kind == 1)
            {
                std::lock_guard<std::mutex> g(rt_mu);
                rejected_at_run_time.insert(key);
                return;
            }
            ++O.vc[ii * O.nslots + 0];
            Violation v;
            v.prop = O.prop;
            v.op = O.name;
            v.arch = mods[(size_t)im.module].arch;
            v.oracle = kind == 3 ? "thread CPU time of one block of kernel calls" : "assertion inside the kernel";
            if (kind == 3)
            {
                char b[200];
                snprintf(b, sizeof b, "one block of kernel calls took %.2f s of CPU time (limit %.1f s; the library needs milliseconds): running time grows with the operands", last_call_cpu_s(), CALL_CPU_LIMIT_S);
                v.note = b;
            }
            else
                v.note = std::string("assertion failed: ") + assert_trap().msg;
            v.elem = G.sig.elem;
            v.lanes = im.op->lanes;
            v.out_type = G.sig.out_t[0];
            v.param = O.param;
            log.add_detailed(std::move(v));
        }
        void report_placement(Group& G, OpInst& O, size_t ii, const void* const* use_in, size_t b0, size_t lane, int o, uint64_t expected, uint64_t observed, const char* why)
        {
            const xv_op& sig = G.sig;
            Impl& im = O.impls[ii];
            uint64_t cnt = ++O.vc[ii * O.nslots + 0];
            if (cnt > 4096)
                O.saturated[ii] = 1;
            if (cnt > 2)
                return;
            Violation v;
            v.prop = O.prop;
            v.op = O.name;
            v.arch = mods[(size_t)im.module].arch;
            v.oracle = "lane k of op(X) versus lane 0 of op(broadcast(X[k])) (C13)";
            v.note = why;
            v.elem = sig.elem;
            v.lanes = im.op->lanes;
            v.lane = (int)lane;
            v.out_slot = o;
            v.out_type = sig.out_t[o];
            v.param = O.param;
            v.nin = sig.nin;
            for (int k = 0; k < sig.nin; ++k)
            {
                v.in_t[k] = sig.in_t[k];
                int sz = xv_type_size[sig.in_t[k]];
                for (int l = 0; l < v.lanes; ++l)
                    v.in[k].push_back(load_bits((const char*)use_in[k] + (b0 + (size_t)l) * (size_t)sz, sz));
            }
            v.expected = expected;
            v.observed = observed;
            log.add_detailed(std::move(v));
        }

        void run_block(Scratch& S, Group& G, uint64_t blk)
        {
            const xv_op& sig = G.sig;
            const uint64_t start = blk * BLOCK;
            const uint64_t len = G.sp.length();
            const size_t n = (size_t)std::min<uint64_t>(BLOCK, len - start);
            void* in[4];
            for (int k = 0; k < sig.nin; ++k)
                in[k] = S.in[k].need(n * (size_t)xv_type_size[sig.in_t[k]]);
            // fill operands
            {
                uint64_t vals[4];
                for (size_t i = 0; i < n; ++i)
                {
                    G.sp.decode(start + i, vals);
                    for (int k = 0; k < sig.nin; ++k)
                    {
                        int sz = xv_type_size[sig.in_t[k]];
                        memcpy((char*)in[k] + i * (size_t)sz, &vals[k], (size_t)sz);
                    }
                }
            }
            void *e1[2], *e2[2], *out[2];
            for (int o = 0; o < sig.nout; ++o)
            {
                size_t bytes = n * (size_t)xv_type_size[sig.out_t[o]];
                e1[o] = S.e1[o].need(bytes);
                e2[o] = S.e2[o].need(bytes);
                out[o] = S.out[o].need(bytes);
            }
            uint8_t* flags = (uint8_t*)S.flags.need(n);
            for (auto& up : G.ops)
            {
                OpInst& O = *up;
                if (deadline != 0 && now_s() > deadline)
                {
                    expired = true;
                    return;
                }
                const void* use_in[4];
                for (int k = 0; k < sig.nin; ++k)
                    use_in[k] = in[k];
                SanLoop san = O.spec->san[sig.elem];
                if (san)
                {
                    void* sin[4];
                    for (int k = 0; k < sig.nin; ++k)
                    {
                        size_t bytes = n * (size_t)xv_type_size[sig.in_t[k]];
                        sin[k] = S.san[k].need(bytes);
                        memcpy(sin[k], in[k], bytes);
                        use_in[k] = sin[k];
                    }
                    SanArgs sa { &sig, sin, n, O.param };
                    san(sa);
                }
                if (G.sp.placement_L)
                {
                    run_placement(S, G, O, use_in, out, n, start);
                    continue;
                }
                int ref_lanes = O.impls.empty() ? 1 : O.impls.front().op->lanes;
                RefArgs ra { &sig, use_in, e1, e2, flags, n, O.param, ref_lanes };
                O.spec->ref[sig.elem](ra);
                if (O.skip_nan_inputs)
                    for (int k = 0; k < sig.nin; ++k)
                    {
                        const int it = sig.in_t[k];
                        if (!is_fp_type(it))
                            continue;
                        const int isz = xv_type_size[it];
                        for (size_t i = 0; i < n; ++i)
                            if (bits_is_nan(load_bits((const char*)use_in[k] + i * (size_t)isz, isz), it))
                                flags[i] |= F_SKIP;
                    }
                // statistics on the reference result
                {
                    uint64_t sk = 0, nt = 0;
                    const int osz = xv_type_size[sig.out_t[0]];
                    const int isz = xv_type_size[sig.in_t[0]];
                    uint64_t bm[16] = {};
                    for (size_t i = 0; i < n; ++i)
                    {
                        if (flags[i] & F_SKIP)
                        {
                            ++sk;
                            continue;
                        }
                        uint64_t e = load_bits((const char*)e1[0] + i * (size_t)osz, osz);
                        uint64_t a = load_bits((const char*)use_in[0] + i * (size_t)isz, isz);
                        if (e != a && e != 0)
                            ++nt;
                        uint64_t h = mix64(e + 0x1234567) & 1023;
                        bm[h >> 6] |= 1ull << (h & 63);
                    }
                    O.points += n;
                    O.skipped += sk;
                    O.nontrivial += nt;
                    for (int w = 0; w < 16; ++w)
                        if (bm[w])
                            O.outbits[w] |= bm[w];
                }
                for (size_t ii = 0; ii < O.impls.size(); ++ii)
                {
                    Impl& im = O.impls[ii];
                    if (O.saturated[ii])
                        continue;
                    if (O.spec->batchwise && im.op->lanes != ref_lanes)
                    {
                        ref_lanes = im.op->lanes;
                        RefArgs rb { &sig, use_in, e1, e2, flags, n, O.param, ref_lanes };
                        O.spec->ref[sig.elem](rb);
                    }
                    xv_ctx ctx;
                    memset(&ctx, 0, sizeof ctx);
                    ctx.param = O.param;
                    ctx.aborted_at = -1;
                    if (int tr = guarded_call(im.op->fn, use_in, out, n, &ctx, im.op, im.module))
                    {
                        assert_failed(G, O, ii, tr);
                        continue;
                    }
                    uint64_t cmp = 0;
                    for (int o = 0; o < sig.nout; ++o)
                    {
                        const int ot = sig.out_t[o];
                        const int osz = xv_type_size[ot];
                        const size_t usable = n - n % (size_t)im.op->lanes;
                        if (o == 0)
                            cmp += usable;
                        if (memcmp(out[o], e1[o], usable * (size_t)osz) == 0)
                            continue;
                        for (size_t i = 0; i < usable; ++i)
                        {
                            uint64_t ob = load_bits((const char*)out[o] + i * (size_t)osz, osz);
                            uint64_t eb = load_bits((const char*)e1[o] + i * (size_t)osz, osz);
                            if (ob == eb)
                                continue;
                            uint8_t f = flags[i];
                            if (f & F_SKIP)
                                continue;
                            if (o == 1 && (f & F_SKIP1))
                                continue;
                            uint64_t ab = load_bits((const char*)e2[o] + i * (size_t)osz, osz);
                            if ((f & F_ALT) && ob == ab)
                                continue;
                            if ((f & F_RANGE) && is_fp_type(ot))
                            {
                                double lo = bits_to_double(eb, ot), hi = bits_to_double(ab, ot), x = bits_to_double(ob, ot);
                                if (x >= lo && x <= hi)
                                    continue;
                            }
                            if (is_fp_type(ot) && !(f & F_EXACT))
                            {
                                if (bits_is_nan(eb, ot) && bits_is_nan(ob, ot))
                                    continue;
                                if ((f & F_ALT) && bits_is_nan(ab, ot) && bits_is_nan(ob, ot))
                                    continue;
                                if ((f & F_ZSIGN) && bits_is_zero(eb, ot) && bits_is_zero(ob, ot))
                                    continue;
                            }
                            VCtx c;
                            c.prop = &O.prop;
                            c.op = &O.name;
                            c.arch = &mods[(size_t)im.module].arch;
                            c.elem = sig.elem;
                            c.lanes = im.op->lanes;
                            c.lane = (int)(i % (size_t)im.op->lanes);
                            c.out_slot = o;
                            c.out_type = ot;
                            c.param = O.param;
                            c.nin = sig.nin;
                            c.in_t = sig.in_t;
                            for (int k = 0; k < sig.nin; ++k)
                            {
                                int sz = xv_type_size[sig.in_t[k]];
                                c.in[k] = load_bits((const char*)use_in[k] + i * (size_t)sz, sz);
                            }
                            c.expected = eb;
                            c.alt = ab;
                            c.observed = ob;
                            int slot = log.slot(c);
                            uint64_t cnt = ++O.vc[ii * O.nslots + (size_t)slot];
                            if (slot == 0 && cnt > 4096)
                                O.saturated[ii] = 1;
                            if (cnt > (slot ? 1u : 2u))
                                continue;
                            // capture the whole batch
                            Violation v;
                            v.prop = O.prop;
                            v.op = O.name;
                            v.arch = mods[(size_t)im.module].arch;
                            v.oracle = "reference model, lane-exact";
                            v.elem = sig.elem;
                            v.lanes = c.lanes;
                            v.lane = c.lane;
                            v.out_slot = o;
                            v.out_type = ot;
                            v.param = O.param;
                            v.nin = sig.nin;
                            size_t b0 = i - (size_t)v.lane;
                            for (int k = 0; k < sig.nin; ++k)
                            {
                                v.in_t[k] = sig.in_t[k];
                                int sz = xv_type_size[sig.in_t[k]];
                                for (int l = 0; l < v.lanes; ++l)
                                    v.in[k].push_back(load_bits((const char*)use_in[k] + (b0 + (size_t)l) * (size_t)sz, sz));
                            }
                            v.expected = eb;
                            v.alt = ab;
                            v.has_alt = (f & F_ALT) != 0;
                            v.observed = ob;
                            if (slot > 0)
                                v.finding = findings()[(size_t)slot - 1].id;
                            log.add_detailed(std::move(v));
                        }
                    }
                    O.compared += cmp;
                }
                // samples: first block of each group's first op
                if (blk == 0 && &up == &G.ops.front())
                {
                    std::lock_guard<std::mutex> g(sample_mu);
                    if (samples.size() < 12)
                    {
                        size_t i = std::min<size_t>(n - 1, 5 + samples.size() * 7);
                        Sample s;
                        s.op = O.name;
                        s.type = xv_type_name[sig.elem];
                        s.arch = O.impls.empty() ? "" : mods[(size_t)O.impls.back().module].arch;
                        s.param = O.param;
                        for (int k = 0; k < sig.nin; ++k)
                        {
                            int sz = xv_type_size[sig.in_t[k]];
                            s.in.push_back(hex(load_bits((const char*)use_in[k] + i * (size_t)sz, sz), sz));
                        }
                        int osz = xv_type_size[sig.out_t[0]];
                        s.expected = hex(load_bits((const char*)e1[0] + i * (size_t)osz, osz), osz);
                        s.observed = O.impls.empty() ? "" : hex(load_bits((const char*)out[0] + i * (size_t)osz, osz), osz);
                        samples.push_back(s);
                    }
                }
            }
        }

        void run()
        {
            // flatten (group, block) into one index space
            std::vector<uint64_t> prefix;
            uint64_t total = 0;
            for (auto& g : groups)
            {
                g->nblocks = (g->sp.length() + BLOCK - 1) / BLOCK;
                prefix.push_back(total);
                total += g->nblocks;
            }
            log.prepare();
            for (auto& g : groups)
                for (auto& o : g->ops)
                    o->alloc_counters(findings().size());
            std::vector<Scratch> scratch((size_t)nthreads);
            parallel_for(total, nthreads, [&](int t, uint64_t idx)
                         {
                             if (expired)
                                 return;
                             size_t gi = (size_t)(std::upper_bound(prefix.begin(), prefix.end(), idx) - prefix.begin()) - 1;
                             run_block(scratch[(size_t)t], *groups[gi], idx - prefix[gi]); });
        }

        RunStats stats()
        {
            RunStats R;
            R.exhaustive = !expired;
            for (auto& g : groups)
            {
                R.states += g->sp.ntuples * (uint64_t)g->sp.shifts * g->ops.size();
                for (auto& up : g->ops)
                {
                    OpInst& O = *up;
                    R.transitions += O.compared;
                    R.skipped += O.skipped;
                    R.nontrivial += O.nontrivial;
                    std::string key = O.name + "<" + xv_type_name[g->sig.elem] + ">";
                    R.per_op_distinct[key] = std::max<uint64_t>(R.per_op_distinct[key], O.distinct());
                    R.per_op_points[key] += O.points;
                    for (size_t ii = 0; ii < O.impls.size(); ++ii)
                    {
                        const std::string& arch = mods[(size_t)O.impls[ii].module].arch;
                        R.per_arch[arch] += O.points;
                        for (size_t sl = 0; sl < O.nslots; ++sl)
                        {
                            uint64_t c = O.vc[ii * O.nslots + sl];
                            if (!c)
                                continue;
                            std::string fid = sl ? findings()[sl - 1].id : "";
                            log.total += c;
                            if (sl == 0)
                                log.unknown += c;
                            else
                                log.count_by_finding[fid] += c;
                            log.count_by_key[O.name + "|" + xv_type_name[g->sig.elem] + "|" + arch + "|" + fid] += c;
                        }
                        if (O.saturated[ii])
                            R.saturated.push_back(O.name + "|" + xv_type_name[g->sig.elem] + "|" + arch);
                    }
                }
            }
            for (auto& kv : R.per_op_distinct)
                if (kv.second <= 1 && R.per_op_points[kv.first] > 64)
                    R.vacuous_ops.push_back(kv.first);
            R.samples = samples;
            for (auto& s : rejected_at_run_time)
                R.rejected_at_run_time.push_back(s);
            // a combination rejected at run time is not "saturated by violations"
            R.saturated.erase(std::remove_if(R.saturated.begin(), R.saturated.end(), [&](const std::string& s)
                                             { return rejected_at_run_time.count(s) != 0; }),
                              R.saturated.end());
            return R;
        }
    };
}
