"""Per-property check drivers (python side): build, run the explorer, turn its result into evidence,
replay files and the VIOLATION / KNOWN-FINDING lines."""
import json
import os
import subprocess
import sys
import time

import vlib

ASSUME_COMMON = [
    "g++ 12 code generation for the harness objects and for xsimd (each architecture compiled with exactly its own -m flags)",
    "the host CPU executes every listed architecture correctly; architectures it cannot execute are listed under skipped_architectures and nothing is claimed for them",
    "MXCSR default state (round-to-nearest, no FTZ/DAZ), asserted at start",
    "nothing is claimed for operand values outside the stated alphabets (see coverage.bound)",
]


def _finish(prop, tier, seed, res, skipped, rule, bound, assumptions, extra_cov=None, replay_kind="elementwise"):
    """Common tail: evidence file, replays, output lines, exit code."""
    known = {f["id"]: f for f in vlib.open_findings(prop)}
    vlib.clear_replays(prop)
    unknown = [v for v in res.get("violations", []) if not v.get("finding")]
    n_unknown = int(res.get("violations_unknown", 0))
    cov = {
        "states": int(res["states"]),
        "transitions": int(res["transitions"]),
        "traces_validated_against_impl": int(res["transitions"]),
        "samples": res.get("samples", [])[:12] or [{"note": "no sample recorded"}],
        "exhaustive": bool(res.get("exhaustive", False)),
        "evaluations": int(res["transitions"]),
        "distinct_nontrivial": int(res.get("distinct_nontrivial", 0)),
        "rule": rule,
        "bound": bound,
        "architectures": res.get("architectures", []),
        "skipped_architectures": skipped,
        "per_arch_points": res.get("per_arch_points", {}),
        "skipped_by_precondition": res.get("skipped_by_precondition", 0),
        "spaces": res.get("notes", []),
        "per_op": res.get("per_op", {}),
        "known_findings_hit": res.get("by_finding", {}),
        "saturated": res.get("saturated", []),
        "rejected_at_run_time": res.get("rejected_at_run_time", []),
    }
    if extra_cov:
        cov.update(extra_cov)
    stale = [k for k in known if k not in res.get("by_finding", {})]
    if stale:
        cov["known_findings_not_hit"] = stale
    vlib.write_evidence(prop, tier, seed, res.get("wall_s", 0.0), cov, n_unknown, assumptions)
    for fid, n in sorted(res.get("by_finding", {}).items()):
        what = known.get(fid, {}).get("what", "")
        print("KNOWN-FINDING: property=%s %s: %s (%d failing lanes explored)" % (prop, fid, what, n))
    rc = 0
    if res.get("vacuous_ops"):
        print("[vcheck] vacuous exploration (a single outcome from many executions): %s" % ", ".join(res["vacuous_ops"][:10]))
        rc = 2
    if n_unknown:
        shown = 0
        seen = set()
        for v in unknown:
            key = (v["op"], v["type"], v["arch"])
            if key in seen:
                continue
            seen.add(key)
            v = dict(v)
            v["replay_kind"] = replay_kind
            path = vlib.write_replay(prop, shown, v)
            if shown < 12:
                lane = v.get("lane", 0)
                ins = [x[lane] if isinstance(x, list) and len(x) > lane else x for x in v.get("in", [])]
                print("VIOLATION property=%s replay=%s  # %s<%s> on %s param=%s lane=%s in=%s expected=%s observed=%s %s" % (
                    prop, path, v["op"], v["type"], v["arch"], v.get("param"), lane, ",".join(map(str, ins)), v.get("expected"), v.get("observed"), str(v.get("note", ""))[:160]))
            shown += 1
        if shown == 0:
            print("VIOLATION property=%s replay=%s" % (prop, vlib.write_replay(prop, 0, {"note": "violations counted but none recorded", "by_key": res.get("by_key")})))
        print("[vcheck] %d failing lanes outside every listed known finding; by (op|type|arch): %s" % (
            n_unknown, json.dumps({k: c for k, c in list(res.get("by_key", {}).items()) if k.endswith("|")}, sort_keys=True)[:3000]))
        rc = 1
    return rc


def _hang(prop, out):
    """xvdrive's watchdog ended the run: a kernel call did not return within 60 s."""
    h = json.load(open(out))
    path = vlib.write_replay(prop, 0, h)
    print("VIOLATION property=%s replay=%s  # %s<%s> on %s (param %s) did not return within 60 s" % (prop, path, h.get("op"), h.get("type"), h.get("arch"), h.get("param")))
    return 1


class Elementwise:
    """A property decided by xvdrive over harness objects h_<group>.cpp."""

    def __init__(self, harnesses, rule, bound, deadline=(600, 7200), assumptions=None, extra_flags=(), probed=False):
        self.probed = probed
        self.rejected = {}
        self.harnesses = harnesses
        self.rule = rule
        self.bound = bound
        self.deadline = deadline
        self.assumptions = (assumptions or []) + ASSUME_COMMON
        self.extra_flags = list(extra_flags)

    def build(self, prop):
        run, skipped = vlib.runnable_archs()
        mods = []
        self.rejected = {}
        for h in self.harnesses:
            if self.probed:
                res, errs, rej = vlib.build_modules_probed(h, run, self.extra_flags)
                self.rejected[h] = {a: r for a, r in rej.items() if r}
            else:
                res, errs = vlib.build_modules(h, run, self.extra_flags)
            if errs:
                for a, log in errs.items():
                    sys.stderr.write("---- build of harness %s for %s failed ----\n%s\n" % (h, a, log[-4000:]))
                print("[vcheck] %s: harness %s does not compile for %s against the current tree" % (prop, h, ",".join(sorted(errs))))
                sys.exit(2)
            mods += [res[a] for a in run]
        drv = vlib.build_driver("xvdrive")
        return drv, mods, run, skipped

    def run(self, prop, tier, seed):
        t0 = time.time()
        drv, mods, run, skipped = self.build(prop)
        os.makedirs(vlib.OUT, exist_ok=True)
        out = os.path.join(vlib.OUT, "%s.%s.result.json" % (prop, tier))
        known = ",".join(f["id"] for f in vlib.open_findings(prop))
        cmd = [drv, "--prop", prop, "--tier", tier, "--seed", str(seed), "--out", out, "--threads", str(vlib.NPROC),
               "--deadline", str(self.deadline[1 if tier == "thorough" else 0])]
        if known:
            cmd += ["--known", known]
        for m in mods:
            cmd += ["--mod", m]
        if os.path.exists(out):
            os.unlink(out)
        p = subprocess.run(cmd)
        if p.returncode == 4 and os.path.exists(out):
            return _hang(prop, out)
        if p.returncode != 0:
            print("[vcheck] explorer failed with status %d" % p.returncode)
            return 2
        res = json.load(open(out))
        res["wall_s"] = time.time() - t0
        bound = self.bound[tier] if isinstance(self.bound, dict) else self.bound
        extra = {"not_accepted_by_library": self.rejected} if self.probed else None
        return _finish(prop, tier, seed, res, skipped, self.rule, bound, self.assumptions, extra)

    def replay(self, prop, path):
        v = json.load(open(path))
        drv, mods, run, skipped = self.build(prop)
        if v["arch"] not in run:
            print("[vcheck] architecture %s is not runnable on this host" % v["arch"])
            return 2
        ins = ":".join(",".join(x) for x in v["in"])
        cmd = [drv, "--prop", prop, "--replay", "--op", v["op"], "--type", v["type"], "--arch", v["arch"], "--param", str(v.get("param", 0)), "--in", ins]
        for m in mods:
            cmd += ["--mod", m]
        p = subprocess.run(cmd, stdout=subprocess.PIPE, text=True)
        sys.stdout.write(p.stdout)
        if p.returncode == 1:
            print("VIOLATION property=%s replay=%s" % (prop, path))
            return 1
        return 0 if p.returncode == 0 else 2


# Where the complete float32 sweeps (all 2^32 arguments) of the thorough tier run: one architecture per distinct set of
# floating-point kernels the elementary functions are built from (128/256/512-bit, with and without FMA, with the
# SSE4.1 rounding instructions, AVX512DQ's float bitwise/conversion forms, the host's best architecture, the emulated
# scalar-loop architecture). Every architecture still runs the lattice spaces in both stream orders; a complete sweep on all
# 22 would take about 20 hours per property.
FULL_SWEEP_ARCHS = ["sse2", "sse4_1", "fma3_sse4_2", "avx", "fma3_avx2", "avx512f", "avx512dq", "avx512vnni_avx512vbmi2", "emulated128"]


class MathCheck:
    """A property decided by xvmath (elementary functions)."""

    def __init__(self, types, rule, bound, extra_args=(), deadline=(900, 14400), assumptions=None, pre_parts=()):
        self.pre_parts = list(pre_parts)  # (label, part) run before the math explorer; their results are merged into the evidence
        self.types = types
        self.rule = rule
        self.bound = bound
        self.extra_args = list(extra_args)
        self.deadline = deadline
        self.assumptions = (assumptions or []) + [
            "first reference: glibc double (for float32 arguments) / glibc long double (for double arguments); a candidate violation is reported only if MPFR 4 at 160 bits confirms it",
        ] + ASSUME_COMMON

    def build(self, prop):
        run, skipped = vlib.runnable_archs()
        res, errs = vlib.build_modules("complex" if "--complex" in self.extra_args else "math", run)
        if errs:
            for a, log in errs.items():
                sys.stderr.write("---- build of harness math for %s failed ----\n%s\n" % (a, log[-4000:]))
            print("[vcheck] %s: harness math does not compile for %s against the current tree" % (prop, ",".join(sorted(errs))))
            sys.exit(2)
        drv = vlib.build_driver("xvmath", libs=("-ldl", "-lpthread", "-lmpfr", "-lgmp"))
        return drv, [res[a] for a in run], run, skipped

    def run(self, prop, tier, seed):
        t0 = time.time()
        pre_results = []
        for label, part in self.pre_parts:
            r = part(prop, tier, seed)
            if r is None:
                print("[vcheck] %s: part %s failed to run" % (prop, label))
                return 2
            pre_results.append((label, r[0]))
        drv, mods, run, skipped = self.build(prop)
        os.makedirs(vlib.OUT, exist_ok=True)
        out = os.path.join(vlib.OUT, "%s.%s.result.json" % (prop, tier))
        if os.path.exists(out):
            os.unlink(out)
        known = ",".join(f["id"] for f in vlib.open_findings(prop))
        cmd = [drv, "--prop", prop, "--tier", tier, "--seed", str(seed), "--out", out, "--threads", str(vlib.NPROC), "--types", self.types,
               "--deadline", str(self.deadline[1 if tier == "thorough" else 0])] + self.extra_args
        if known:
            cmd += ["--known", known]
        if tier == "thorough":
            cmd += ["--full-archs", ",".join(a for a in FULL_SWEEP_ARCHS if a in run)]
        for m in mods:
            cmd += ["--mod", m]
        p = subprocess.run(cmd)
        if p.returncode == 4 and os.path.exists(out):
            h = json.load(open(out))
            path = vlib.write_replay(prop, 0, h)
            print("VIOLATION property=%s replay=%s  # %s on %s did not return within 30 s (arguments between %s and %s)" % (prop, path, h.get("op"), h.get("arch"), h.get("first_arg"), h.get("last_arg")))
            return 1
        if p.returncode == 5 and os.path.exists(out):
            h = json.load(open(out))
            h["hang"] = True
            path = vlib.write_replay(prop, 0, h)
            print("VIOLATION property=%s replay=%s  # %s on %s died with signal %s inside a kernel call (arguments between %s and %s): e.g. the stack overflow of a recursion whose depth follows the argument" % (prop, path, h.get("op"), h.get("arch"), h.get("signal"), h.get("first_arg"), h.get("last_arg")))
            return 1
        if p.returncode != 0:
            print("[vcheck] explorer failed with status %d" % p.returncode)
            return 2
        res = json.load(open(out))
        for label, pres in pre_results:
            for k in ("states", "transitions", "distinct_nontrivial", "violations_unknown", "violations_total"):
                res[k] = int(res.get(k, 0)) + int(pres.get(k, 0))
            res["exhaustive"] = bool(res.get("exhaustive", False)) and bool(pres.get("exhaustive", False))
            res.setdefault("notes", [])
            res["notes"] += ["[%s] %s" % (label, n) for n in pres.get("notes", [])]
            res.setdefault("per_op", {})
            for k, v in pres.get("per_op", {}).items():
                res["per_op"]["%s:%s" % (label, k)] = v
            for k in ("by_finding", "by_key"):
                res.setdefault(k, {})
                for kk, vv in pres.get(k, {}).items():
                    res[k][kk] = res[k].get(kk, 0) + vv
            res.setdefault("violations", [])
            res["violations"] += pres.get("violations", [])
            res.setdefault("vacuous_ops", [])
            res["vacuous_ops"] += pres.get("vacuous_ops", [])
        res["wall_s"] = time.time() - t0
        bound = self.bound[tier] if isinstance(self.bound, dict) else self.bound
        extra = {"disagreements_checked": res.get("disagreements_checked", 0)}
        assumptions = list(self.assumptions)
        if tier == "thorough":
            assumptions.append("complete float32 sweeps run on " + ", ".join(a for a in FULL_SWEEP_ARCHS if a in run) + " only (one architecture per distinct set of floating-point kernels, a source-level argument); the other architectures are covered by the lattice spaces in both stream orders")
        return _finish(prop, tier, seed, res, skipped, self.rule, bound, assumptions, extra, replay_kind="math")

    def replay(self, prop, path):
        v = json.load(open(path))
        if v.get("hang"):
            print("[vcheck] hang replay: re-run the check; the block is identified in %s" % path)
            return 2
        drv, mods, run, skipped = self.build(prop)
        ins = ":".join(",".join(x) for x in v["in"])
        cmd = [drv, "--prop", prop, "--replay", "--op", v["op"], "--type", v["type"], "--arch", v["arch"], "--in", ins] + self.extra_args
        for m in mods:
            cmd += ["--mod", m]
        p = subprocess.run(cmd, stdout=subprocess.PIPE, text=True)
        sys.stdout.write(p.stdout)
        if p.returncode == 1:
            print("VIOLATION property=%s replay=%s" % (prop, path))
            return 1
        return 0 if p.returncode == 0 else 2


class Composite:
    """A property decided by several explorer runs whose results are merged into one evidence file."""

    def __init__(self, parts, rule, bound, assumptions=None):
        self.parts = parts  # list of (label, callable(prop, tier, seed) -> (result dict, skipped archs) or None on failure)
        self.rule = rule
        self.bound = bound
        self.assumptions = (assumptions or []) + ASSUME_COMMON

    def run(self, prop, tier, seed):
        t0 = time.time()
        merged = {"states": 0, "transitions": 0, "distinct_nontrivial": 0, "violations_unknown": 0, "violations_total": 0, "exhaustive": True,
                  "samples": [], "notes": [], "per_op": {}, "by_finding": {}, "by_key": {}, "violations": [], "per_arch_points": {}, "architectures": [],
                  "vacuous_ops": [], "saturated": [], "skipped_by_precondition": 0, "disagreements_checked": 0}
        skipped_all = []
        for label, fn in self.parts:
            r = fn(prop, tier, seed)
            if r is None:
                print("[vcheck] %s: part %s failed to run" % (prop, label))
                return 2
            res, skipped = r
            skipped_all = skipped
            for k in ("states", "transitions", "distinct_nontrivial", "violations_unknown", "violations_total", "skipped_by_precondition", "disagreements_checked"):
                merged[k] += int(res.get(k, 0))
            merged["exhaustive"] = merged["exhaustive"] and bool(res.get("exhaustive", False))
            merged["samples"] += res.get("samples", [])[:6]
            merged["notes"] += ["[%s] %s" % (label, n) for n in res.get("notes", [])]
            for k, v in res.get("per_op", {}).items():
                merged["per_op"]["%s:%s" % (label, k)] = v
            for k in ("by_finding", "by_key", "per_arch_points"):
                for kk, vv in res.get(k, {}).items():
                    merged[k][kk] = merged[k].get(kk, 0) + vv
            for v in res.get("violations", []):
                v = dict(v)
                v["part"] = label
                merged["violations"].append(v)
            merged["vacuous_ops"] += res.get("vacuous_ops", [])
            merged["saturated"] += res.get("saturated", [])
            merged["architectures"] = res.get("architectures", merged["architectures"])
        merged["wall_s"] = time.time() - t0
        bound = self.bound[tier] if isinstance(self.bound, dict) else self.bound
        return _finish(prop, tier, seed, merged, skipped_all, self.rule, bound, self.assumptions, {"disagreements_checked": merged["disagreements_checked"]}, replay_kind="composite")

    def replay(self, prop, path):
        v = json.load(open(path))
        part = v.get("part")
        for label, fn in self.parts:
            if label == part and hasattr(fn, "replay"):
                return fn.replay(prop, path)
        print("[vcheck] no replay for part %s" % part)
        return 2


class DrivePart:
    """xvdrive run with explicit arguments, used as a part of a Composite."""

    def __init__(self, harnesses, args, probed=(), deadline=(3000, 3000), thorough_archs=None, only_in_thorough_as_quick=False):
        self.harnesses = harnesses
        self.args = list(args)
        self.probed = set(probed)
        self.deadline = deadline
        self.thorough_archs = thorough_archs  # the thorough spaces run on these architectures only
        self.only_in_thorough_as_quick = only_in_thorough_as_quick  # companion part: the quick spaces on every architecture, thorough tier only

    def replay(self, prop, path):
        if "perm" in self.harnesses:
            return CHECKS["C05"].replay("C05", path)
        return Elementwise(self.harnesses, "", "", probed=bool(self.probed)).replay(prop, path)

    def __call__(self, prop, tier, seed):
        run, skipped = vlib.runnable_archs()
        if self.only_in_thorough_as_quick:
            if tier != "thorough":
                return {"states": 0, "transitions": 0, "exhaustive": True}, skipped
            tier = "quick"
        elif tier == "thorough" and self.thorough_archs:
            run = [a for a in run if a in self.thorough_archs]
        mods = []
        extra_args = []
        for h in self.harnesses:
            if h == "perm":
                pc = CHECKS["C05"]
                hp, dp = pc.gen(tier, seed)
                res, errs, _ = vlib.build_modules_probed(h, run, ['-DXV_PERM_MASKS="%s"' % hp])
                extra_args = ["--perm-tables", dp]
            elif h in self.probed:
                res, errs, _ = vlib.build_modules_probed(h, run)
            else:
                res, errs = vlib.build_modules(h, run)
            if errs:
                for a, log in errs.items():
                    sys.stderr.write("---- build of harness %s for %s failed ----\n%s\n" % (h, a, log[-3000:]))
                return None
            mods += [res[a] for a in run]
        drv = vlib.build_driver("xvdrive")
        os.makedirs(vlib.OUT, exist_ok=True)
        out = os.path.join(vlib.OUT, "%s.%s.drive.json" % (prop, tier))
        known = ",".join(f["id"] for f in vlib.open_findings(prop))
        cmd = [drv, "--prop", prop if "--placement" in self.args else "C05" if "perm" in self.harnesses else prop, "--tier", tier, "--seed", str(seed), "--out", out, "--threads", str(vlib.NPROC), "--deadline", str(self.deadline[1 if tier == "thorough" else 0])] + self.args + extra_args
        if known:
            cmd += ["--known", known]
        for m in mods:
            cmd += ["--mod", m]
        if os.path.exists(out):
            os.unlink(out)
        rc = subprocess.run(cmd).returncode
        if rc == 4 and os.path.exists(out):
            h = json.load(open(out))
            return {"states": 0, "transitions": 0, "violations_unknown": 1, "violations_total": 1, "exhaustive": False, "by_key": {"%s|%s|%s|" % (h.get("op"), h.get("type"), h.get("arch")): 1},
                    "violations": [{"property": prop, "op": h.get("op"), "type": h.get("type"), "arch": h.get("arch"), "param": h.get("param"), "finding": "", "in": [], "note": "the kernel call did not return within 60 s"}]}, skipped
        if rc != 0:
            return None
        return json.load(open(out)), skipped


class MathPart:
    def __init__(self, types, args, full_archs=None):
        self.mc = MathCheck(types, "", "", extra_args=args)
        self.full_archs = full_archs or FULL_SWEEP_ARCHS

    def __call__(self, prop, tier, seed):
        drv, mods, run, skipped = self.mc.build(prop)
        os.makedirs(vlib.OUT, exist_ok=True)
        out = os.path.join(vlib.OUT, "%s.%s.math.json" % (prop, tier))
        known = ",".join(f["id"] for f in vlib.open_findings(prop))
        cmd = [drv, "--prop", prop, "--tier", tier, "--seed", str(seed), "--out", out, "--threads", str(vlib.NPROC), "--types", self.mc.types, "--deadline", "3000"] + self.mc.extra_args
        if known:
            cmd += ["--known", known]
        if tier == "thorough":
            cmd += ["--full-archs", ",".join(a for a in self.full_archs if a in run)]
        for m in mods:
            cmd += ["--mod", m]
        if subprocess.run(cmd).returncode != 0:
            return None
        return json.load(open(out)), skipped

    def replay(self, prop, path):
        return self.mc.replay(prop, path)


class CpuidCheck:
    def build(self, seed, tier):
        gen = subprocess.run([sys.executable, os.path.join(vlib.VERIF, "gen", "gen_dispatch.py"), str(seed), "64" if tier == "quick" else "256"], stdout=subprocess.PIPE, text=True).stdout
        hp = os.path.join(vlib.BUILD, "gen", "dispatch_lists.%s.h" % tier)
        vlib.write_if_changed(hp, gen)
        target, (ok, log) = vlib.build_exe("xvcpuid." + tier, os.path.join(vlib.VERIF, "harness", "h_cpuid.cpp"), flags=["-msse2", '-DXV_DISPATCH_LISTS="%s"' % hp], libs=["-lpthread"], opt="-O0")
        if not ok:
            sys.stderr.write(log[-4000:])
            # the generated dispatch programs call dispatch(f)(lvalue, rvalue of a move-only type, const reference): when
            # the dispatcher itself stops accepting that call, "forwards the arguments" is violated at compile time
            errs = [l for l in log.splitlines() if " error: " in l]
            if errs and "xsimd_arch.hpp" in errs[0] and any(k in errs[0] for k in ("no match for call", "cannot bind", "no matching function")):
                path = vlib.write_replay("C15", 0, {"property": "C15", "op": "dispatch:forwarding", "type": "program", "arch": "host", "note": errs[0][-600:], "program": "harness/h_cpuid.cpp", "replay_kind": "cpuid"})
                print("VIOLATION property=C15 replay=%s  # dispatch(f)(args...) does not forward its arguments: %s" % (path, errs[0][-300:]))
                sys.exit(1)
            # the static_asserts of the harness on dispatch's result type ("dispatch of a functor returning int& returns int&"):
            # the result of f is not returned as it is
            sa = [l for l in errs if "static assertion failed: dispatch of" in l]
            if sa and errs[0] is sa[0]:
                path = vlib.write_replay("C15", 0, {"property": "C15", "op": "dispatch:result", "type": "program", "arch": "host", "note": sa[0][-600:], "program": "harness/h_cpuid.cpp", "replay_kind": "cpuid"})
                print("VIOLATION property=C15 replay=%s  # dispatch(f)(args...) does not return f's result: %s" % (path, sa[0][-300:]))
                sys.exit(1)
            print("[vcheck] C15: the CPUID harness does not compile against the current tree")
            sys.exit(2)
        return target

    def run(self, prop, tier, seed):
        t0 = time.time()
        exe = self.build(seed, tier)
        os.makedirs(vlib.OUT, exist_ok=True)
        out = os.path.join(vlib.OUT, "%s.%s.result.json" % (prop, tier))
        known = ",".join(f["id"] for f in vlib.open_findings(prop))
        cmd = [exe, "--out", out, "--tier", tier, "--seed", str(seed)] + (["--known", known] if known else [])
        if subprocess.run(cmd).returncode != 0:
            print("[vcheck] explorer failed")
            return 2
        res = json.load(open(out))
        res["wall_s"] = time.time() - t0
        rule = ("detection: every combination of the 20 CPUID feature bits the detector reads x the 5 OS states hardware can present is injected through the XSIMD_VERIF_CPUID / XSIMD_VERIF_XGETBV hook "
                "and the 23 availability flags are compared with the decision model of the property (own feature bits, OS-enabled register state, no XGETBV without OSXSAVE, monotone on chain-closed configurations); "
                "dispatch: every generated architecture list is one program, executed under every availability vector (<= 4 members) or first-available-at-position-p x {alone, with the rest}; "
                "states = configurations + (list, configuration) pairs; transitions = availability flags judged + dispatch calls")
        bound = "2^20 x 5 = 5 242 880 configurations (exhaustive); %d architecture lists: all 276 sub-lists of length <= 2, all contiguous windows of the default list, reversed pairs, the full list, %s seed sub-lists" % (res.get("dispatch_programs", 0), "64" if tier == "quick" else "256")
        assumptions = ["the hook replaces only the cpuid/xgetbv primitives; the decoding logic judged is the library's own",
                       "hardware-presentable OS states: XCR0[2] implies XCR0[1], XCR0[7:5] all-or-none and only with XCR0[2], XCR0 readable only with OSXSAVE"]
        return _finish(prop, tier, seed, res, [], rule, bound, assumptions, {"detection_configurations": res.get("detection_configurations"), "dispatch_programs": res.get("dispatch_programs"), "dispatch_calls": res.get("dispatch_calls")}, replay_kind="cpuid")

    def replay(self, prop, path):
        v = json.load(open(path))
        c = v.get("config")
        if not c:
            print("[vcheck] nothing to replay")
            return 2
        exe = self.build(vlib.tier_and_seed()[1], "quick")
        arg = ",".join(str(c[k]).replace("0x", "") for k in ("leaf1_ecx", "leaf1_edx", "leaf7_ebx", "leaf7_ecx", "leaf7_1_eax", "leaf80000001_ecx", "xcr0"))
        p = subprocess.run([exe, "--replay-config", arg], stdout=subprocess.PIPE, text=True)
        sys.stdout.write(p.stdout)
        if p.returncode == 1:
            print("VIOLATION property=%s replay=%s" % (prop, path))
            return 1
        return 0 if p.returncode == 0 else 2


class AllocCheck:
    def build(self, *a):
        target, (ok, log) = vlib.build_exe("xvalloc", os.path.join(vlib.VERIF, "harness", "h_alloc.cpp"),
                                           flags=["-msse2", "-g", "-fsanitize=address", "-fsanitize-recover=address", "-fno-omit-frame-pointer"], libs=["-ldl", "-lpthread"], opt="-O1")
        if not ok:
            sys.stderr.write(log[-4000:])
            print("[vcheck] C18: the allocator harness does not compile against the current tree")
            sys.exit(2)
        return target

    def run(self, prop, tier, seed):
        t0 = time.time()
        exe = self.build()
        os.makedirs(vlib.OUT, exist_ok=True)
        env = dict(os.environ, ASAN_OPTIONS="halt_on_error=0:detect_leaks=1:allocator_may_return_null=1:print_summary=0")
        procs = []
        for part in range(4):
            out = os.path.join(vlib.OUT, "%s.%s.part%d.json" % (prop, tier, part))
            if os.path.exists(out):
                os.unlink(out)
            log = open(os.path.join(vlib.OUT, "%s.%s.part%d.log" % (prop, tier, part)), "w")
            procs.append((out, subprocess.Popen([exe, "--out", out, "--tier", tier, "--seed", str(seed), "--part", str(part)], env=env, stdout=log, stderr=log), log))
        merged = None
        asan_reports = 0
        for out, p, log in procs:
            rc = p.wait()
            log.close()
            txt = open(log.name, errors="replace").read()
            asan_reports += txt.count("ERROR: AddressSanitizer")
            if rc != 0 or not os.path.exists(out):
                sys.stderr.write(txt[-3000:])
                print("[vcheck] C18: explorer part failed (status %s)" % rc)
                return 2
            sys.stderr.write("".join(l + "\n" for l in txt.splitlines() if l.startswith("[xvalloc]")))
            r = json.load(open(out))
            if merged is None:
                merged = r
            else:
                for k in ("states", "transitions", "distinct_nontrivial", "histories", "histories_with_injected_faults", "size_cases", "predicate_cases", "posix_memalign_calls_intercepted", "violations_total", "violations_unknown"):
                    merged[k] = merged.get(k, 0) + r.get(k, 0)
                merged["violations"] += r.get("violations", [])
                for kk, vv in r.get("by_key", {}).items():
                    merged["by_key"][kk] = merged["by_key"].get(kk, 0) + vv
        merged["wall_s"] = time.time() - t0
        rule = ("all operation histories over the stated alphabet up to the length bound are executed on a fresh allocator inside an AddressSanitizer build; after every step the model of live blocks "
                "(alignment, size, tags, no overlap) is compared with the heap; fault injection: every subset of <= 2 failing posix_memalign calls per history (deviation-bounded); "
                "size arithmetic and the alignment predicates are enumerated completely over their stated ranges; states = histories + cases; transitions = operations executed")
        bound = {"quick": "histories of length <= 5 (<= 3 live blocks), fault histories of length <= 4 x <= 2 faults; T in {char, float, double, 24-byte struct} x Align in {8,...,4096}; n in {0..64} and 2^k +- 1 (allocated when <= 64 MiB), every n with n*sizeof(T) within +-64 of 2^64, SIZE_MAX/sizeof(T) - {0..7}; is_aligned for every residue mod 2*alignment x 9 architectures; get_alignment_offset for every residue x size in [0, 2 block] x block in {1,...,64} x 4 element sizes; equality for all 100 alignment pairs",
                 "thorough": "histories of length <= 6, fault histories of length <= 5; otherwise as quick"}[tier]
        assumptions = ["AddressSanitizer (g++ 12) reports every heap overflow, double free and use after free that occurs in the explored steps",
                       "posix_memalign is the only allocation primitive of the allocator on this platform (interposed in the harness executable)"]
        extra = {k: merged.get(k) for k in ("histories", "histories_with_injected_faults", "size_cases", "predicate_cases", "posix_memalign_calls_intercepted")}
        extra["asan_reports"] = asan_reports
        return _finish(prop, tier, seed, merged, [], rule, bound, assumptions, extra, replay_kind="alloc")

    def replay(self, prop, path):
        print("[vcheck] C18 violations carry the complete operation history in the replay file; re-run `bin/vcheck C18 quick` to re-execute it")
        v = json.load(open(path))
        print(json.dumps(v, indent=1)[:2000])
        return self.run(prop, "quick", 0)


class GeometryCheck:
    """C20: one generated static_assert program per architecture (compile error = violation) + a tiny run-time part."""

    def build(self, *a):
        return None

    def run(self, prop, tier, seed):
        t0 = time.time()
        run, skipped = vlib.runnable_archs()
        allarchs = [a[0] for a in vlib.ARCHS + vlib.ARCHS_COMPILE_ONLY]
        cross = {a[0]: a for a in vlib.ARCHS_CROSS}
        cross_skipped = []
        gen_dir = os.path.join(vlib.BUILD, "gen")
        os.makedirs(gen_dir, exist_ok=True)
        results = {}

        def one(arch):
            if arch in cross:
                name, tag, flags, _ = cross[arch]
            else:
                name, tag, flags, _ = vlib.ARCH_BY_NAME[arch]
            src = os.path.join(gen_dir, "geometry.%s.cpp" % arch)
            text = subprocess.run([sys.executable, os.path.join(vlib.VERIF, "gen", "gen_geometry.py"), arch, tag], stdout=subprocess.PIPE, text=True).stdout
            vlib.write_if_changed(src, text)
            nassert = text.count("static_assert(")
            target = os.path.join(vlib.OBJ, "geometry.%s" % arch)
            argv = [vlib.CXX, "-std=c++17", "-O0", "-I" + os.path.join(vlib.REPO, "include")] + flags.split() + [src]
            if arch in cross:
                argv = vlib.cross_cmd(arch, src)
                if argv is None:
                    return arch, 0, [], "no clang++"
            ok, log = vlib.build_object(target, argv, [src])
            fails = []
            if not ok:
                for l in log.splitlines():
                    if "static assertion failed" in l or "static_assert failed" in l or ("error:" in l and "static assertion" not in l):
                        fails.append(l.strip()[-300:])
                if not fails:
                    fails = [log[-600:]]
                return arch, nassert, fails, None
            runmsg = None
            if arch in run:
                p = subprocess.run([target], stdout=subprocess.PIPE, stderr=subprocess.STDOUT, text=True)
                if p.returncode != 0 or not p.stdout.startswith("ok"):
                    runmsg = (p.stdout or "")[-300:] + " (exit status %d)" % p.returncode
            return arch, nassert, fails, runmsg

        from concurrent.futures import ThreadPoolExecutor
        with ThreadPoolExecutor(max_workers=vlib.NPROC) as ex:
            for arch, nassert, fails, runmsg in ex.map(one, allarchs + list(cross)):
                if arch in cross and runmsg == "no clang++":
                    cross_skipped.append(arch)
                    continue
                results[arch] = (nassert, fails, runmsg)
        viol = []
        states = 0
        for arch, (nassert, fails, runmsg) in results.items():
            states += nassert + (1 if arch in run else 0)
            seen = set()
            for f in fails:
                if f in seen:
                    continue
                seen.add(f)
                viol.append({"property": prop, "op": "static_assert", "type": "geometry", "arch": arch, "note": f, "finding": "", "in": [], "program": "build/gen/geometry.%s.cpp" % arch})
            if runmsg:
                viol.append({"property": prop, "op": "aligned_load_at_alignment", "type": "float", "arch": arch, "note": runmsg, "finding": "", "in": [], "program": "build/gen/geometry.%s.cpp" % arch})
        res = {"states": states, "transitions": states, "distinct_nontrivial": states, "exhaustive": True, "violations": viol, "violations_unknown": len(viol), "violations_total": len(viol),
               "by_key": {"%s|%s|%s|" % (v["op"], v["type"], v["arch"]): 1 for v in viol}, "by_finding": {}, "architectures": allarchs + [a for a in cross if a in results], "wall_s": time.time() - t0,
               "samples": [{"program": "build/gen/geometry.avx2.cpp", "example_obligation": "static_assert(xsimd::batch<int16_t, A>::size * sizeof(int16_t) == 32)"},
                           {"program": "build/gen/geometry.avx512pf.cpp", "note": "compile-only architecture (not executable on this host)"}],
               "notes": ["%s: %d static assertions%s" % (a, r[0], ", run-time aligned load at alignment() executed" if a in run else (", cross-target, clang -fsyntax-only against the host's libstdc++ headers + /verif/shim" if a in cross else ", compile-only")) for a, r in sorted(results.items())] + (["cross-target programs skipped (no clang++ on PATH): " + " ".join(cross_skipped)] if cross_skipped else []),
               "per_arch_points": {a: r[0] for a, r in results.items()}}
        rule = ("one generated program per architecture (25 x86/emulated: the 22 executable ones plus fma4, avx512er, avx512pf compile-only; plus 7 cross-target compile-only programs neon, neon64, i8mm<neon64>, sve 128/256/512, wasm), each a list of static_asserts over every (architecture, element type, lane count) triple; "
                "an assertion that does not hold is a compile error naming the triple; states = transitions = obligations compiled (+ one executed aligned load per runnable architecture)")
        bound = "21 element types (8 fixed-width integers, char/short/int/long/long long twins, float, double) + complex<float/double> + bool x 25 (+7 cross-target) architectures; make_sized_batch<T,N> for 6 types x N in 1..128; list order against a parent table written from the ISA manuals; exhaustive"
        return _finish(prop, tier, seed, res, skipped, rule, bound, ["the compiler evaluates static_assert correctly"], {"programs": len(allarchs)}, replay_kind="geometry")

    def replay(self, prop, path):
        return self.run(prop, "quick", 0)


class PermCheck(Elementwise):
    """C05 / C19: generated compile-time mask programs (gen/gen_perm.py) + trial-compiled feature units."""

    def __init__(self, harness, rule, bound):
        Elementwise.__init__(self, [harness], rule, bound, probed=True)
        self.harness = harness

    def gen(self, tier, seed):
        g = os.path.join(vlib.VERIF, "gen", "gen_perm.py")
        hdr = subprocess.run([sys.executable, g, str(seed), tier], stdout=subprocess.PIPE, text=True).stdout
        dat = subprocess.run([sys.executable, g, str(seed), tier, "data"], stdout=subprocess.PIPE, text=True).stdout
        hp = os.path.join(vlib.BUILD, "gen", "perm_masks.%s.h" % tier)
        dp = os.path.join(vlib.BUILD, "gen", "perm_masks.%s.dat" % tier)
        vlib.write_if_changed(hp, hdr)
        vlib.write_if_changed(dp, dat)
        return hp, dp

    def build(self, prop, tier="quick", seed=None):
        if seed is None:
            seed = vlib.tier_and_seed()[1]
        hp, dp = self.gen(tier, seed)
        self.tables = dp
        run, skipped = vlib.runnable_archs()
        res, errs, rej = vlib.build_modules_probed(self.harness, run, ['-DXV_PERM_MASKS="%s"' % hp])
        self.rejected = {self.harness: {a: r for a, r in rej.items() if r}}
        if errs:
            for a, log in errs.items():
                sys.stderr.write("---- build of harness %s for %s failed ----\n%s\n" % (self.harness, a, "\n".join([l for l in log.splitlines() if "error" in l][:20])))
            print("[vcheck] %s: harness %s does not compile for %s against the current tree" % (prop, self.harness, ",".join(sorted(errs))))
            sys.exit(2)
        drv = vlib.build_driver("xvdrive")
        return drv, [res[a] for a in run], run, skipped

    def run(self, prop, tier, seed):
        t0 = time.time()
        drv, mods, run, skipped = self.build(prop, tier, seed)
        os.makedirs(vlib.OUT, exist_ok=True)
        out = os.path.join(vlib.OUT, "%s.%s.result.json" % (prop, tier))
        known = ",".join(f["id"] for f in vlib.open_findings(prop))
        cmd = [drv, "--prop", prop, "--tier", tier, "--seed", str(seed), "--out", out, "--threads", str(vlib.NPROC), "--perm-tables", self.tables,
               "--deadline", str(self.deadline[1 if tier == "thorough" else 0])]
        if known:
            cmd += ["--known", known]
        for m in mods:
            cmd += ["--mod", m]
        if subprocess.run(cmd).returncode != 0:
            print("[vcheck] explorer failed")
            return 2
        res = json.load(open(out))
        res["wall_s"] = time.time() - t0
        bound = self.bound[tier] if isinstance(self.bound, dict) else self.bound
        nrej = sum(len(t) for a in self.rejected.get(self.harness, {}).values() for t in a.values())
        extra = {"not_accepted_by_library": self.rejected, "not_accepted_count": nrej, "programs": sum(1 for _ in open(self.tables))}
        return _finish(prop, tier, seed, res, skipped, self.rule, bound, self.assumptions, extra)

    def replay(self, prop, path):
        v = json.load(open(path))
        drv, mods, run, skipped = self.build(prop, "quick")
        ins = ":".join(",".join(x) for x in v["in"])
        cmd = [drv, "--prop", prop, "--perm-tables", self.tables, "--replay", "--op", v["op"], "--type", v["type"], "--arch", v["arch"], "--param", str(v.get("param", 0)), "--in", ins]
        for m in mods:
            cmd += ["--mod", m]
        p = subprocess.run(cmd, stdout=subprocess.PIPE, text=True)
        sys.stdout.write(p.stdout)
        if p.returncode == 1:
            print("VIOLATION property=%s replay=%s" % (prop, path))
            return 1
        return 0 if p.returncode == 0 else 2


class ConstPrograms:
    """C19 part: one generated program per architecture (static_asserts + run-time lane comparisons)."""

    def __call__(self, prop, tier, seed):
        run, skipped = vlib.runnable_archs()
        allarchs = [a[0] for a in vlib.ARCHS]
        gen_dir = os.path.join(vlib.BUILD, "gen")
        nseed = 8 if tier == "quick" else 32
        g = os.path.join(vlib.VERIF, "gen", "gen_const.py")

        def one(arch):
            name, tag, flags, _ = vlib.ARCH_BY_NAME[arch]
            width = {"emulated128": 16, "emulated256": 32}.get(arch, 16 if ("sse" in arch) else (32 if ("avx5" not in arch) else 64))
            out = []
            for kind in ("main", "min"):
                src = os.path.join(gen_dir, "const.%s.%s.%s.cpp" % (arch, tier, kind))
                if kind == "main":
                    text = subprocess.run([sys.executable, g, arch, tag, str(width), str(seed), str(nseed)], stdout=subprocess.PIPE, stderr=subprocess.DEVNULL, text=True).stdout
                else:
                    text = subprocess.run([sys.executable, g, "--min-probe", tag, str(width)], stdout=subprocess.PIPE, text=True).stdout
                vlib.write_if_changed(src, text)
                target = os.path.join(vlib.OBJ, "const.%s.%s.%s" % (arch, tier, kind))
                ok, log = vlib.build_object(target, [vlib.CXX, "-std=c++17", "-O0", "-I" + os.path.join(vlib.REPO, "include")] + flags.split() + [src], [src])
                fails, checks = [], 0
                if not ok:
                    fails = [l.strip()[-300:] for l in log.splitlines() if ("static assertion failed" in l or "error:" in l)][:12] or [log[-500:]]
                elif arch in run:
                    p = subprocess.run([target], stdout=subprocess.PIPE, stderr=subprocess.STDOUT, text=True)
                    lines = p.stdout.splitlines()
                    fails = [l for l in lines if l.startswith("FAIL")][:12]
                    if p.returncode != 0 and not fails:
                        fails = ["program exited with status %d: %s" % (p.returncode, p.stdout[-200:])]
                    for l in lines:
                        if l.startswith("ok ") or l.startswith("FAILED "):
                            try:
                                checks = int(l.split()[1])
                            except ValueError:
                                pass
                out.append((kind, text.count("static_assert("), text.count("xs::batch_constant<") + text.count("xs::batch_bool_constant<") + text.count("xsimd::batch_constant<"), checks, fails, src))
            return arch, out

        from concurrent.futures import ThreadPoolExecutor
        res = {"states": 0, "transitions": 0, "distinct_nontrivial": 0, "exhaustive": True, "violations": [], "by_key": {}, "by_finding": {}, "notes": [], "samples": [], "architectures": allarchs, "per_arch_points": {}}
        with ThreadPoolExecutor(max_workers=vlib.NPROC) as ex:
            for arch, out in ex.map(one, allarchs):
                for kind, nassert, ninst, checks, fails, src in out:
                    res["states"] += ninst
                    res["transitions"] += nassert + checks
                    res["distinct_nontrivial"] += ninst
                    res["per_arch_points"][arch] = res["per_arch_points"].get(arch, 0) + nassert + checks
                    if kind == "main":
                        res["notes"].append("%s: %d constant instantiations, %d static assertions, %d run-time lane checks" % (arch, ninst, nassert, checks))
                    for f in fails:
                        res["violations"].append({"property": prop, "op": "batch_constant", "type": "program", "arch": arch, "note": f, "finding": "", "in": [], "program": os.path.relpath(src, vlib.VERIF)})
                        k = "batch_constant|program|%s|" % arch
                        res["by_key"][k] = res["by_key"].get(k, 0) + 1
        res["violations_unknown"] = res["violations_total"] = len(res["violations"])
        res["samples"] = [{"program": "build/gen/const.avx2.%s.main.cpp" % tier, "example": "using C_int16_t_onehot3 = xs::batch_constant<int16_t, A, 0, 0, 0, 7, 0, ...>; static_assert(C().get(3) == 7); run time: as_batch() lane 3 == 7, implicit conversion, select(batch_bool_constant) == select(as_batch_bool())"}]
        return res, skipped


class MemCheck:
    """C04: one executable per architecture (guard pages, every pointer offset), run in parallel and merged."""

    def build(self, *a, asan=False):
        run, skipped = vlib.runnable_archs()
        from concurrent.futures import ThreadPoolExecutor
        out, errs = {}, {}

        def one(arch):
            name, tag, flags, _ = vlib.ARCH_BY_NAME[arch]
            fl = flags.split() + ["-DXV_ARCH=" + tag, '-DXV_ARCH_NAME="%s"' % name]
            if asan:
                fl += ["-fsanitize=address", "-fno-omit-frame-pointer", "-g"]
            target, (ok, log) = vlib.build_exe("xvmem.%s%s" % (arch, ".asan" if asan else ""), os.path.join(vlib.VERIF, "harness", "h_mem.cpp"), flags=fl, libs=["-lpthread"], opt="-O2")
            return arch, target, ok, log
        with ThreadPoolExecutor(max_workers=vlib.NPROC) as ex:
            for arch, target, ok, log in ex.map(one, run):
                if ok:
                    out[arch] = target
                else:
                    errs[arch] = log
        if errs:
            for a, log in errs.items():
                sys.stderr.write("---- build of the memory harness for %s failed ----\n%s\n" % (a, "\n".join([l for l in log.splitlines() if "error" in l][:15])))
            print("[vcheck] C04: the memory harness does not compile for %s against the current tree" % ",".join(sorted(errs)))
            sys.exit(2)
        return out, run, skipped

    def run(self, prop, tier, seed):
        t0 = time.time()
        exes, run, skipped = self.build()
        variants = [("", exes, {})]
        if tier == "thorough":
            aexes, _, _ = self.build(asan=True)
            variants.append(("asan", aexes, {"ASAN_OPTIONS": "handle_segv=0:handle_sigbus=0:detect_leaks=0:halt_on_error=1"}))
        os.makedirs(vlib.OUT, exist_ok=True)
        merged = {"states": 0, "transitions": 0, "distinct_nontrivial": 0, "violations": [], "by_key": {}, "by_finding": {}, "per_op": {}, "per_arch_points": {}, "architectures": run,
                  "exhaustive": True, "notes": [], "samples": []}
        from concurrent.futures import ThreadPoolExecutor

        def one(job):
            label, arch, exe, env = job
            out = os.path.join(vlib.OUT, "%s.%s.%s%s.json" % (prop, tier, arch, label))
            if os.path.exists(out):
                os.unlink(out)
            p = subprocess.run([exe, "--out", out, "--tier", tier, "--seed", str(seed)], stdout=subprocess.PIPE, stderr=subprocess.STDOUT, text=True, env=dict(os.environ, **env))
            return label, arch, p.returncode, p.stdout, out
        jobs = [(label, a, ex[a], env) for label, ex, env in variants for a in run]
        with ThreadPoolExecutor(max_workers=vlib.NPROC) as ex:
            for label, arch, rc, txt, out in ex.map(one, jobs):
                if rc != 0 or not os.path.exists(out):
                    merged["violations"].append({"property": prop, "op": "harness run", "type": label or "plain", "arch": arch, "finding": "", "in": [],
                                                 "note": "the %s memory harness died with status %d: %s" % (label or "plain", rc, " ".join(l for l in txt.splitlines() if l.startswith("UNGUARDED-FAULT"))[:300] or txt[-400:])})
                    merged["by_key"]["harness|run|%s|" % arch] = 1
                    continue
                r = json.load(open(out))
                merged["states"] += r["states"]
                merged["transitions"] += r["transitions"]
                merged["distinct_nontrivial"] += r["states"]
                merged["per_arch_points"][arch] = merged["per_arch_points"].get(arch, 0) + r["states"]
                merged["violations"] += r["violations"]
                for k, v in r["by_key"].items():
                    merged["by_key"][k] = merged["by_key"].get(k, 0) + v
                if arch in ("sse2", "avx512bw") and not label:
                    merged["notes"].append("%s: %d (operation, placement) pairs, %d operations/type instances" % (arch, r["states"], len(r["per_op"])))
        merged["violations_unknown"] = merged["violations_total"] = sum(merged["by_key"].values()) if merged["by_key"] else len(merged["violations"])
        merged["samples"] = [{"operation": "store_aligned<int16> on avx2", "placement": "buffer ends exactly at the PROT_NONE page", "checked": "32 bytes equal the lanes, 160 bytes before the buffer unchanged, no fault"},
                             {"operation": "load_as<double>(const int8*) on sse2", "placement": "2-byte footprint straddling the page boundary at every offset", "checked": "lanes equal the converted elements, no fault"}]
        merged["wall_s"] = time.time() - t0
        rule = ("every load/store form of every element type (plain, tag-dispatched, free functions, bool arrays, interleaved complex, all 100 converting load_as/store_as pairs) is executed at every start address of three placement windows "
                "(starting right after a PROT_NONE page, straddling a page boundary at every offset, ending right at a PROT_NONE page; aligned forms at every multiple of the alignment): a read or write of one byte outside the "
                "size*sizeof(T) footprint faults; after a store the 160 bytes on both sides are compared with their pattern; gather/scatter over index-vector families with the table between guard pages; "
                "states = (operation, placement) pairs; transitions = lanes / bytes compared")
        bound = {"quick": "offsets 0..127+alignment from both guard pages and every offset within footprint+130 bytes of the page boundary; two data assignments (all bytes distinct; signalling-NaN payloads); gather/scatter: all (2n)^n index vectors for n <= 4, identity, reverse, every constant, strides and every single deviation beyond; all 22 architectures",
                 "thorough": "as quick, plus the same harness built with AddressSanitizer (catches overflows of the kernels' internal stack scratch buffers)"}[tier]
        return _finish(prop, tier, seed, merged, skipped, rule, bound, ["the kernel delivers SIGSEGV for any access to the PROT_NONE pages (mmap/mprotect)"], None, replay_kind="mem")

    def replay(self, prop, path):
        return self.run(prop, "quick", 0)


RULE_MATH = ("every point of the stated argument space is evaluated twice, once among neighbouring arguments and once in a strided order where "
             "the lanes of one batch come from 16 distant parts of the space, by every architecture's real kernel; each lane result is judged "
             "against the exact value (ulp bound inside the normal range, graceful-degradation predicate outside); states = arguments x orders; "
             "transitions = lane results judged")

RULE_EW = ("odometer over the complete Cartesian product of the stated operand alphabets, every tuple placed at every lane offset "
           "(lane_shifts), executed by every architecture's real kernel and compared lane by lane with the reference model; "
           "states = operand tuples x lane offsets x operations; transitions = lane results compared; "
           "distinct_nontrivial = explored points whose reference result is neither the first operand nor zero")

CHECKS = {
    "C01": Elementwise(["int"], RULE_EW, {
        "quick": "8-bit: all 65536 operand pairs x 64 lane offsets, ternary ALL8^2 x L8; 16-bit: ALL16 x L16, L16 x ALL16, L16^2 x 32 lane offsets; 32/64-bit: boundary lattice^2 (incl. 64 seed symbols) x all lane offsets; all 22 architectures",
        "thorough": "as quick plus all 2^32 16-bit operand pairs, ALL8^3 for the ternary operations, larger 32/64-bit lattices"}),
    "C04": MemCheck(),
    "C05": PermCheck("perm", "every compile-time mask of the generated families is one program (template instantiation) per (architecture, element type); which (operation, type) pairs the library accepts is decided by trial compilation; each program / count / run-time index vector / mask is executed on lane-tagged batches (every byte distinct; signalling-NaN payloads) and compared bit-exactly with the index-level definition of the property; states = (operation, parameter, tag assignment) points; transitions = lane results compared", {
        "quick": "constant swizzle: all 4 / 256 masks for 2 / 4 lanes, 153..364 family masks per wider lane count (identity, reverse, every broadcast, every rotation, swaps, dup-low/high, evens/odds, unpack, in-128-bit-lane patterns replicated and taken from the next lane, every single deviation i->j, seed masks and permutations); constant shuffle: all 16 for 2 lanes, 145..292 masks hitting every detector (swizzle_fst/snd, zip_lo/hi, select, windows, AVX in-lane forms) and their one-index perturbations; run-time swizzle: all n^n index vectors for n <= 4, the families and pairs of deviations beyond; slide_left/right for every byte count in [0, register bytes]; rotate_left/right, extract_pair, insert, get for every index; zip_lo/hi; transpose; compress/expand for all 2^n masks (n <= 16) and ~450 structured masks for 32/64 lanes; all 22 architectures",
        "thorough": "larger families (637..1031 swizzle masks per lane count, all 4096 4-lane shuffles, all 8^8 run-time index vectors for 8 lanes, 4096 seed masks for compress/expand on 32/64 lanes)"}),
    "C06": Elementwise(["conv"], RULE_EW, {
        "quick": "batch_cast for every same-width (From,To) pair, to_int/to_float, load_as/store_as/broadcast_as for all 100 (From,To) pairs, bitwise_cast for all 100 pairs and its involution; sources: 8/16-bit exhaustive, 32-bit lattice + windows + every 251st bit pattern, 64-bit lattice + windows of +-4 around 2^23..2^63 and all int->float half-way cases, doubles lattice + integer-boundary windows + every binade x 32 mantissas; only representable sources are judged; all 22 architectures",
        "thorough": "as quick with all 2^32 float32 and 32-bit integer sources"}),
    "C09": Elementwise(["red"], RULE_EW + "; reductions are judged batch-wise: the space is lane-aware (one stream per batch size)", {
        "quick": "per batch size L: one witness (8 values) at every lane over 4 backgrounds; two witnesses (3x3 values) at every lane pair p<q over 4 backgrounds; the whole lattice (8-bit: all values) passing through every lane; reduce_add/max/min, generic reduce(f) for f in {+,max,min,^} where the library accepts it (trial compilation), haddp with the witness in every (row, lane); float sums exact when every partial sum is representable, else within (n-1) roundings; all 22 architectures",
        "thorough": "same space (it is small and already complete for its definition)"}, probed=True),
    "C07": Elementwise(["int"], RULE_EW, {
        "quick": "every lane value (8/16-bit exhaustive, 32/64-bit lattice) x every count in [0,bits), scalar-count and per-lane-count forms, every lane offset; bitwise operators on the C01 pair spaces; all 22 architectures",
        "thorough": "as quick plus all 2^32 16-bit pairs for the bitwise operators and full lane-offset product for 16-bit per-lane counts"}),
    "C02": Elementwise(["fp"], RULE_EW, {
        "quick": "unary: special-value lattice (incl. 64 seed bit patterns + 64 moderate seed values) x all lane offsets and every binade x 64 mantissa patterns; binary: lattice^2 (about 900^2 float, 1000^2 double); ternary: compact lattice^3; ldexp: lattice x every exponent in [-300,300] / [-2200,2200]; all 22 architectures",
        "thorough": "as quick plus all 2^32 float32 bit patterns for every unary operation and 256 mantissa patterns per double binade"}),
    "C03": Elementwise(["cmp"], RULE_EW, {
        "quick": "six comparisons (operator and function forms, observed through bool store, mask(), 0/1 batch, get(i), batch_bool_cast) on the C01/C02 pair spaces (all 8-bit pairs, ALL16 x L16, lattices^2 incl. NaN/+-0/MIN/MAX); select on {0,1} x V^2 with masks of four provenances; batch_bool algebra (&,|,^,~,!,==,!=,andnot,&&,||, compound assignment) on every 16-bit mask value (unary), all pairs of 8-bit masks (binary; five provenance/observation pairs: bool load/store, from_mask/mask, comparison result/0-1 batch, batch_bool_cast both ways, element constructor/get) and every 16-bit mask x 4 special partners; all/any/none/count/mask against the n-bit integer model; all 22 architectures",
        "thorough": "as quick with every 16-bit mask x 16 special partners, all 2^32 16-bit operand pairs for the comparisons"}),
    "C08": Elementwise(["fp"], RULE_EW, {
        "quick": "every k/2 and its two neighbours for |k| <= 2^13, +-64-ulp windows at 2^22..2^25, 2^30..2^33, 2^51..2^54, 2^62..2^64, special lattice x all lane offsets, every binade x 64 mantissa patterns; results compared as numbers; all 22 architectures",
        "thorough": "as quick plus all 2^32 float32 bit patterns, |k| <= 2^16 and 256 mantissa patterns per double binade"}),
    "C10": MathCheck("float", RULE_MATH, {
        "quick": "per unary function: every float32 binade x 2048 mantissa patterns, +-64-ulp windows at 70 algorithm switch points, k*pi/2 +- 3 ulp for k <= 3000 and a geometric ladder beyond, k/2 +- 2 ulp up to 180, special lattice, seed symbols; binary functions: thinned lattice^2; both stream orders; frozen bounds of DESIGN.md 8.1; all 22 architectures",
        "thorough": "the quick spaces on all 22 architectures in both stream orders, plus all 2^32 float32 arguments of each of the 28 unary functions (both halves of sincos included) in neighbour order on 9 architectures, one per distinct set of floating-point kernels (sse2, sse4_1, fma3<sse4_2>, avx, fma3<avx2>, avx512f, avx512dq, avx512vnni<avx512vbmi2>, emulated<128>); binary functions on the larger lattice^2"}),
    "C11": MathCheck("double", RULE_MATH, {
        "quick": "per function: every double binade x 256 mantissa patterns, +-64-ulp windows at 70 switch points, k*pi/2 +- 3 ulp for k <= 3000 and a geometric ladder up to 2^900, k/2 +- 2 ulp up to 180, special lattice, seed symbols; thinned lattice^2 for the binary functions; both stream orders; 4.5 ulp for the exp/log/trig/hyperbolic/inverse/cbrt/hypot/atan2 families, DESIGN.md 8.2 for erf/erfc/tgamma/lgamma; nothing is claimed between lattice points",
        "thorough": "4096 mantissa patterns per binade, +-256-ulp windows, k <= 20000"}),
    "C12": MathCheck("float,double", "(a) every special operand of the table transcribed from the property (NaN arguments, domain errors, poles, limits, exact identities) is placed in every lane position among every companion class (31 constant classes + a rotation of all) and the lane's result class is checked; (b) relations are checked bit-for-bit over the whole unary argument space on mirrored batches: odd/even symmetry, sincos == (sin, cos), fabs == abs, rint == nearbyint, pow(x, +-0) == 1; states = table placements + relation points; transitions = lane results judged", {
        "quick": "table: about 190 (function, operand) entries x lanes x 32 companion classes per architecture; relations: the C10/C11 quick unary spaces (every binade x 2048 / 256 mantissas, switch-point windows, specials); all 22 architectures",
        "thorough": "relations on the quick spaces on all 22 architectures, on all 2^32 float32 arguments on the 9 kernel-distinct architectures (see C10), and on the C11 thorough lattice"}, extra_args=["--special"]),
    "C13": Composite([
        ("exact", DrivePart(["int", "fp", "cmp", "conv"], ["--placement", "--props", "C01,C02,C03,C06,C07,C08"])),
        ("math", MathPart("float,double", ["--placement"])),
    ], "every (subject operand tuple, lane position k, companion class) triple is executed next to the broadcast batch of the same subject: for the exact operations lane k must be bit-identical to lane 0 of the broadcast result and all broadcast lanes identical; for the elementary functions lane k must stay in the same special-value class as the broadcast result and within the function's accuracy bound; states = triples; transitions = lane comparisons", {
        "quick": "exact: every element-wise operation of C01/C02/C03/C06/C07/C08 (about 960 operation/type instances), subject tuples from a 13-symbol boundary alphabet per operand (64 / 8^2 / 5^3 tuples), every lane, companions = each alphabet symbol in all other lanes + a rotation of all symbols; elementary functions: about 500 subject values (switch-point windows, specials, binade edges, gamma poles) x every lane x 32 companion classes chosen on both sides of every any()/all() threshold plus NaN/inf/huge/tiny; all 22 architectures",
        "thorough": "exact: the full 13^2 / 8^3 subject products; elementary functions: about 6000 subject values (+-8-ulp switch-point windows, every float binade / every 8th double binade, k/2 up to 180); otherwise as quick"}),
    "C14": MathCheck("float,double", RULE_MATH + "; for C14 the judged quantity is the number of iterations of the data-dependent loops of one call (hook XSIMD_VERIF_LOOP_TICK) against the frozen constants of DESIGN.md 8.3, a call is aborted and reported after 1000 iterations, and a watchdog reports any kernel call that does not return within 30 s", {
        "quick": "the C10 and C11 quick argument spaces of every elementary function, both stream orders (so that lanes of very different magnitude share a batch); pow(x, n) for 40 exponents n (0, +-1, small, 2^k -+ 1, the extremes of the type, their neighbours and halves) of int16/32/64 and uint16/32/64 x 24 values of x; all 22 architectures",
        "thorough": "the quick spaces on all 22 architectures in both stream orders, plus all 2^32 float32 arguments of every unary function on the 9 kernel-distinct architectures (see C10; both stream orders for the functions that contain hooked loops, lgamma and tgamma), and the C11 thorough lattice"}, extra_args=["--ticks"],
        pre_parts=[("exact-operations", DrivePart(["int", "fp", "cmp", "conv"], ["--placement", "--timing", "--props", "C01,C02,C03,C06,C07,C08"]))]),
    "C15": CpuidCheck(),
    "C18": AllocCheck(),
    "C19": Composite([
        ("programs", ConstPrograms()),
        ("constant-apis", DrivePart(["perm"], ["--only", "swizzle.const,swizzle.dyn,shuffle.const,insert,get,get.const,slide_left,slide_right,rotate_left,rotate_right"], probed=["perm"])),
    ], "programs: one generated program per architecture holding the stated value packs as batch_constant / batch_bool_constant instantiations; get(i), mask(), make_batch_constant<G> and every compile-time operator are static_asserted against values computed by the generator (a wrong constant is a compile error), as_batch()/as_batch_bool()/implicit conversion/select(constant mask) are compared lane by lane at run time; constant-apis: the constant-mask and template-count forms of swizzle, shuffle, insert, get, slide, rotate are executed and compared with the same index-level reference as the run-time forms (C05 machinery); states = instantiations; transitions = assertions + lane comparisons", {
        "quick": "per integer element type and architecture (lane counts 2..64): one-hot and all-but-one packs for every lane (a subset of 14 lanes for 32/64), arange, reverse, constant, alternating, extremes incl. the most negative value, 8 seed packs; the same for Boolean packs incl. mask() for <= 32 lanes; 3 generators; 8 binary + 2 unary operators on 5 pack pairs, 5 Boolean operators + 2 unary on 4 pairs; all 22 architectures",
        "thorough": "32 seed packs per type; the thorough mask families of C05 for the constant APIs"}),
    "C20": GeometryCheck(),
    "C16": MathCheck("float,double", "every operand tuple of the log-polar grid is executed by every architecture's complex kernel (operands travel as separate real/imaginary arrays) and each component is compared with std::complex<long double> / the textbook formula within the property's tolerance; premises (finite operands, no intermediate overflow, |Re|,|Im| <= 20 for tan/tanh) are applied as filters; states = operand tuples; transitions = lane results judged", {
        "quick": "moduli 2^k, k in [-40,40] step 2 (float) / [-300,300] step 12 (double) x 64 arguments, the four axes with both signs of the zero part, +-1 ulp off each axis, moderate box points, 64 seed points; binary operations on a thinned grid^2 (about 225 000 pairs), fused forms on a small grid^3 (about 250 000 triples), pow with 11 real exponents, polar over 129 angles; all 22 architectures",
        "thorough": "denser grids: every float binade / every 4th double binade x 256 arguments (+ axes, +-1 ulp off the axes, 256 seed points) for the unary functions, a 4x denser modulus ladder x 32 arguments squared for the binary ones, a 2.5x denser ladder x 8 arguments cubed for the fused forms"}, extra_args=["--complex"]),
    "C17": Composite([
        ("exact", DrivePart(["scalar"], [], deadline=(600, 7200), thorough_archs=["sse2", "fma3_avx2", "avx512vnni_avx512vbmi2"])),
        ("exact-every-architecture", DrivePart(["scalar"], [], deadline=(600, 600), only_in_thorough_as_quick=True)),
        ("elementary", MathPart("float,double", ["--scalar"], full_archs=["sse2", "fma3_avx2", "avx512vnni_avx512vbmi2"])),
    ], RULE_EW + "; the scalar overloads are run one element per call and judged by the same reference models as the batch lanes (so scalar == batch wherever the model is single-valued); NaN operands are outside the property; the scalar overloads of the elementary functions (exp ... lgamma, sqrt: 26 functions x float/double, compiled with every architecture's flags) are judged against the exact result (glibc first reference, MPFR arbiter) with the bound the property text states for the family (4.5 ulp; erfc 128; tgamma 16/256; lgamma 8; sqrt 0.5), which together with C10/C11 for the batch lanes bounds their disagreement", {
        "quick": "elementary: the C10/C11 quick unary argument spaces; exact: the C01/C02/C03/C06/C07/C08 operand spaces (8-bit pairs exhaustive, ALL16 x L16, lattices^2, every shift/rotate count, fp lattices, rounding windows) for add, sub, mul, div, mod, neg, abs, min, max, sadd, ssub, avg, avgr, incr/decr(_if), bitwise operators, shifts, rotates, comparisons, select, is_flint/is_even/is_odd, fma family, nearbyint_as_int, bitwise_cast, clip, pow with 26 integer exponents incl. INT_MAX and INT_MIN (scalar and batch forms against the shared square-and-multiply model); all 22 architectures' compile flags",
        "thorough": "as quick with the thorough spaces of the underlying properties (the scalar overloads contain no architecture-specific code, only the compile flags differ: the thorough spaces - all 2^32 16-bit pairs, all 2^32 float32 arguments - run with the flags of sse2, fma3<avx2> and avx512vnni<avx512vbmi2>, the quick spaces with every architecture's flags)"}),
}


def setup_all():
    """MANIFEST.setup_cmd: build every harness object and explorer once so that quick checks start warm."""
    run, skipped = vlib.runnable_archs()
    tier, seed = vlib.tier_and_seed("quick")
    for prop, chk in CHECKS.items():
        t0 = time.time()
        if isinstance(chk, (Elementwise, MathCheck)):
            chk.build(prop)
        elif isinstance(chk, Composite):
            for label, part in chk.parts:
                if isinstance(part, MathPart):
                    part.mc.build(prop)
                elif isinstance(part, DrivePart):
                    for h in part.harnesses:
                        if h in part.probed:
                            vlib.build_modules_probed(h, run)
                        else:
                            vlib.build_modules(h, run)
                    vlib.build_driver("xvdrive")
        elif hasattr(chk, "build"):
            try:
                chk.build(seed, "quick")
            except TypeError:
                chk.build()
        print("[setup] %s ready (%.0f s)" % (prop, time.time() - t0))
        sys.stdout.flush()
    print("[setup] built for architectures: %s; skipped (not runnable here): %s" % (",".join(run), ",".join(skipped) or "-"))
    return 0
