// Reference models for C09 (reductions): batch-wise, every lane of the batch exactly once.
#pragma once
#include "refs_conv.hpp"

namespace xv
{
    // KIND: 0 add, 1 max, 2 min, 3 xor
    template <class T, int KIND>
    void ref_reduce_loop(const RefArgs& A)
    {
        const T* in = (const T*)A.in[0];
        T* e1 = (T*)A.e1[0];
        T* e2 = (T*)A.e2[0];
        const size_t L = (size_t)A.lanes;
        for (size_t b = 0; b + L <= A.n; b += L)
        {
            T lo {}, hi {};
            uint8_t fl = 0;
            if constexpr (std::is_integral<T>::value)
            {
                if (KIND == 0)
                {
                    wide s = 0;
                    for (size_t i = 0; i < L; ++i)
                        s += (wide)in[b + i];
                    lo = hi = wrap<T>(s);
                }
                else if (KIND == 3)
                {
                    UT<T> x = 0;
                    for (size_t i = 0; i < L; ++i)
                        x ^= (UT<T>)in[b + i];
                    lo = hi = (T)x;
                }
                else
                {
                    T m = in[b];
                    for (size_t i = 1; i < L; ++i)
                        m = KIND == 1 ? (in[b + i] > m ? in[b + i] : m) : (in[b + i] < m ? in[b + i] : m);
                    lo = hi = m;
                }
            }
            else
            {
                bool bad = false;
                for (size_t i = 0; i < L; ++i)
                    if (!fpb<T>::isfinite(in[b + i]))
                        bad = KIND == 0 ? true : (bad || fpb<T>::isnan(in[b + i]));
                if (bad)
                    fl = F_SKIP;
                else if (KIND == 0)
                {
                    // exact sum in long double; if every partial sum of any order is representable the result must be
                    // exact, otherwise it must be within (n-1) roundings: |res - exact| <= (n-1) * u * sum|x_i|
                    long double s = 0, as = 0;
                    int minexp = 100000;
                    for (size_t i = 0; i < L; ++i)
                    {
                        long double v = in[b + i];
                        s += v;
                        as += v < 0 ? -v : v;
                        if (in[b + i] != 0)
                        {
                            int e;
                            std::frexp(in[b + i], &e);
                            // exponent of the least significant set bit
                            typename fp_traits<T>::U m = fpb<T>::bits(in[b + i]) & fpb<T>::MANM;
                            int tz = m ? __builtin_ctzll((unsigned long long)m) : fp_traits<T>::mant;
                            int lsb = e - 1 - (fp_traits<T>::mant - tz);
                            if ((fpb<T>::bits(in[b + i]) & fpb<T>::EXPM) == 0) // subnormal
                                lsb = 1 - fp_traits<T>::bias - fp_traits<T>::mant + (m ? __builtin_ctzll((unsigned long long)m) : 0);
                            if (lsb < minexp)
                                minexp = lsb;
                        }
                    }
                    bool exact = as == 0 || as < std::ldexp((long double)1, minexp + fp_traits<T>::mant + 1);
                    if (exact)
                    {
                        lo = hi = (T)s;
                        fl = F_ZSIGN;
                    }
                    else
                    {
                        const long double u = std::ldexp((long double)1, -(fp_traits<T>::mant + 1));
                        long double tol = (long double)(L - 1) * u * as * 1.0001L;
                        if (!(as < (long double)std::numeric_limits<T>::max() / 4))
                            fl = F_SKIP; // intermediate overflow possible: outside the bound's premise
                        lo = (T)(s - tol);
                        if ((long double)lo > s - tol)
                            lo = std::nextafter(lo, -std::numeric_limits<T>::infinity());
                        hi = (T)(s + tol);
                        if ((long double)hi < s + tol)
                            hi = std::nextafter(hi, std::numeric_limits<T>::infinity());
                        fl |= F_RANGE | F_ALT;
                    }
                }
                else
                {
                    T m = in[b];
                    for (size_t i = 1; i < L; ++i)
                        m = KIND == 1 ? (in[b + i] > m ? in[b + i] : m) : (in[b + i] < m ? in[b + i] : m);
                    lo = hi = m;
                    fl = F_ZSIGN;
                }
            }
            for (size_t i = 0; i < L; ++i)
            {
                e1[b + i] = lo;
                e2[b + i] = hi;
                A.flags[b + i] = fl;
            }
        }
        for (size_t i = A.n - A.n % L; i < A.n; ++i)
            A.flags[i] = F_SKIP;
    }

    // haddp: groups of L rows of L lanes; lane i of the result (written at every row position) = sum of row i
    template <class T>
    void ref_haddp_loop(const RefArgs& A)
    {
        const T* in = (const T*)A.in[0];
        T* e1 = (T*)A.e1[0];
        T* e2 = (T*)A.e2[0];
        const size_t L = (size_t)A.lanes;
        const size_t G = L * L;
        std::vector<T> rows(A.n), rlo(A.n), rhi(A.n);
        std::vector<uint8_t> rfl(A.n);
        // reduce_add reference per row
        RefArgs R = A;
        void* o1[2] = { rlo.data(), nullptr };
        void* o2[2] = { rhi.data(), nullptr };
        R.e1 = o1;
        R.e2 = o2;
        R.flags = rfl.data();
        ref_reduce_loop<T, 0>(R);
        for (size_t g = 0; g + G <= A.n; g += G)
            for (size_t r = 0; r < L; ++r)
                for (size_t i = 0; i < L; ++i)
                {
                    // result lane i = sum of row i
                    e1[g + r * L + i] = rlo[g + i * L];
                    e2[g + r * L + i] = rhi[g + i * L];
                    A.flags[g + r * L + i] = rfl[g + i * L];
                }
        for (size_t i = A.n - A.n % G; i < A.n; ++i)
            A.flags[i] = F_SKIP;
    }

    template <int KIND>
    inline OpSpec& def_reduce(const char* name)
    {
        OpSpec& s = specs()[name];
        s.name = name;
        s.space = "witness";
        s.batchwise = true;
        s.ref[XV_I8] = &ref_reduce_loop<int8_t, KIND>;
        s.ref[XV_U8] = &ref_reduce_loop<uint8_t, KIND>;
        s.ref[XV_I16] = &ref_reduce_loop<int16_t, KIND>;
        s.ref[XV_U16] = &ref_reduce_loop<uint16_t, KIND>;
        s.ref[XV_I32] = &ref_reduce_loop<int32_t, KIND>;
        s.ref[XV_U32] = &ref_reduce_loop<uint32_t, KIND>;
        s.ref[XV_I64] = &ref_reduce_loop<int64_t, KIND>;
        s.ref[XV_U64] = &ref_reduce_loop<uint64_t, KIND>;
        if (KIND != 3)
        {
            s.ref[XV_F32] = &ref_reduce_loop<float, KIND == 3 ? 0 : KIND>;
            s.ref[XV_F64] = &ref_reduce_loop<double, KIND == 3 ? 0 : KIND>;
        }
        return s;
    }

    // ---- C17 extras ----
    // clip(x, lo, hi) with lo <= hi (precondition asserted by the scalar overload); NaN operands are outside C17
    XV_REF(ref_clip, if (x.b > x.c) { r.skip = true; return; } r.v = x.b > x.a ? x.b : (x.c < x.a ? x.c : x.a); r.zsign = true;)
    // pow with an integer exponent: square-and-multiply from the least significant exponent bit (each product
    // rounded once), reciprocal for negative exponents -- the algorithm both forms are documented to share
    XV_REF(ref_ipow, T a = x.a; long b = x.p; bool recip = b < 0; T res = (T)1; for (;;) { if (b & 1) res = opaque(res * a); b /= 2; if (b == 0) break; a = opaque(a * a); } r.v = recip ? (T)1 / res : res;)
    template <class T>
    struct san_clip
    {
        static inline void f(Ops<T>& x)
        {
            if (x.b > x.c)
            {
                T t = x.b;
                x.b = x.c;
                x.c = t;
            }
            else if (!(x.b <= x.c)) // unordered bounds (NaN): outside the contract, replaced
                x.b = x.c = (T)0;
        }
    };
    inline void ref_bits_copy(const RefArgs& A)
    {
        size_t sz = (size_t)xv_type_size[A.sig->in_t[0]];
        memcpy(A.e1[0], A.in[0], A.n * sz);
        memcpy(A.e2[0], A.in[0], A.n * sz);
        memset(A.flags, F_EXACT, A.n);
    }

    inline void register_red_specs()
    {
        {
            OpSpec& c = def_all<ref_clip>("clip", "ter");
            set_int_sans<san_clip>(c);
            set_fp_sans<san_clip>(c);
            OpSpec& p = specs()["ipow"];
            p.name = "ipow";
            p.space = "un";
            p.param_kind = 3;
            set_fp_refs<ref_ipow>(p);
            OpSpec& b = specs()["bitwise_cast.scalar"];
            b.name = "bitwise_cast.scalar";
            b.space = "conv";
            for (int t = 0; t < XV_NTYPES; ++t)
                b.ref[t] = &ref_bits_copy;
        }
        def_reduce<0>("reduce_add");
        def_reduce<1>("reduce_max");
        def_reduce<2>("reduce_min");
        def_reduce<3>("reduce_xor");
        OpSpec& h = specs()["haddp"];
        h.name = "haddp";
        h.space = "witness";
        h.batchwise = true;
        h.ref[XV_F32] = &ref_haddp_loop<float>;
        h.ref[XV_F64] = &ref_haddp_loop<double>;
    }
}
