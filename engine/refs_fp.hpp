// Reference models for C02 (basic floating point) and C08 (rounding).  This translation unit is
// compiled -msse2 -mfpmath=sse -ffp-contract=off -fno-fast-math, so a + b etc. are the scalar IEEE
// instructions; fma is glibc's exact fma; classification comes from bit fields.
#pragma once
#include <cfenv>
#include <cmath>

#include "refs_int.hpp"

namespace xv
{
    template <class T>
    struct fpb
    {
        using Tr = fp_traits<T>;
        using U = typename Tr::U;
        static constexpr U SIGN = (U)1 << (Tr::bits - 1);
        static constexpr U EXPM = (((U)1 << Tr::ebits) - 1) << Tr::mant;
        static constexpr U MANM = ((U)1 << Tr::mant) - 1;
        static U bits(T x)
        {
            U u;
            memcpy(&u, &x, sizeof u);
            return u;
        }
        static T val(U u)
        {
            T x;
            memcpy(&x, &u, sizeof x);
            return x;
        }
        static bool isnan(T x) { return (bits(x) & EXPM) == EXPM && (bits(x) & MANM); }
        static bool isinf(T x) { return (bits(x) & ~SIGN) == EXPM; }
        static bool isfinite(T x) { return (bits(x) & EXPM) != EXPM; }
        static bool iszero(T x) { return (bits(x) & ~SIGN) == 0; }
        static bool signbit(T x) { return (bits(x) & SIGN) != 0; }
    };

    // keep the compiler from folding or contracting: operands pass through volatile
    template <class T>
    inline T opaque(T x)
    {
        volatile T v = x;
        return v;
    }

    XV_REF(ref_fadd, r.v = opaque(x.a) + opaque(x.b);)
    XV_REF(ref_fsub, r.v = opaque(x.a) - opaque(x.b);)
    XV_REF(ref_fmul, r.v = opaque(x.a) * opaque(x.b);)
    XV_REF(ref_fdiv, r.v = opaque(x.a) / opaque(x.b);)
    XV_REF(ref_fincr, r.v = opaque(x.a) + (T)1;)
    XV_REF(ref_fdecr, r.v = opaque(x.a) - (T)1;)
    XV_REF(ref_fincr_if, r.v = x.m ? opaque(x.a) + (T)1 : x.a;)
    XV_REF(ref_fdecr_if, r.v = x.m ? opaque(x.a) - (T)1 : x.a;)
    // self-aliased spellings (the same object on both sides)
    XV_REF(ref_fselfadd, r.v = opaque(x.a) + opaque(x.a);)
    XV_REF(ref_fselfsub, r.v = opaque(x.a) - opaque(x.a);)
    XV_REF(ref_fselfmul, r.v = opaque(x.a) * opaque(x.a);)
    XV_REF(ref_fselfdiv, r.v = opaque(x.a) / opaque(x.a);)
    XV_REF(ref_fselfid, r.v = x.a; r.exact = true;)
    XV_REF(ref_fselffma, T a = opaque(x.a); r.v = std::fma(a, a, a); T p = opaque(a * a); r.alt = p + a; r.has_alt = true;)
    XV_REF(ref_fsqrt, r.v = std::sqrt(opaque(x.a));)
    XV_REF(ref_fneg, r.v = fpb<T>::val(fpb<T>::bits(x.a) ^ fpb<T>::SIGN); r.exact = true;)
    XV_REF(ref_fabs, r.v = fpb<T>::val(fpb<T>::bits(x.a) & ~fpb<T>::SIGN); r.exact = true;)
    XV_REF(ref_copysign, r.v = fpb<T>::val((fpb<T>::bits(x.a) & ~fpb<T>::SIGN) | (fpb<T>::bits(x.b) & fpb<T>::SIGN)); r.exact = true;)
    XV_REF(ref_fand, r.v = fpb<T>::val(fpb<T>::bits(x.a) & fpb<T>::bits(x.b)); r.exact = true;)
    XV_REF(ref_for, r.v = fpb<T>::val(fpb<T>::bits(x.a) | fpb<T>::bits(x.b)); r.exact = true;)
    XV_REF(ref_fxor, r.v = fpb<T>::val(fpb<T>::bits(x.a) ^ fpb<T>::bits(x.b)); r.exact = true;)
    XV_REF(ref_fnot, r.v = fpb<T>::val(~fpb<T>::bits(x.a)); r.exact = true;)
    XV_REF(ref_fandnot, r.v = fpb<T>::val(fpb<T>::bits(x.a) & ~fpb<T>::bits(x.b)); r.exact = true;)
    // fused (one rounding) or unfused (two roundings) are both acceptable
    XV_REF(ref_ffma, T a = opaque(x.a); T b = opaque(x.b); T c = opaque(x.c); r.v = std::fma(a, b, c); T p = opaque(a * b); r.alt = p + c; r.has_alt = true;)
    XV_REF(ref_ffms, T a = opaque(x.a); T b = opaque(x.b); T c = opaque(x.c); r.v = std::fma(a, b, -c); T p = opaque(a * b); r.alt = p - c; r.has_alt = true;)
    XV_REF(ref_ffnma, T a = opaque(x.a); T b = opaque(x.b); T c = opaque(x.c); r.v = std::fma(-a, b, c); T p = opaque(-a * b); r.alt = p + c; r.has_alt = true;)
    XV_REF(ref_ffnms, T a = opaque(x.a); T b = opaque(x.b); T c = opaque(x.c); r.v = std::fma(-a, b, -c); T p = opaque(-a * b); r.alt = p - c; r.has_alt = true;)
    // the numerically smaller/larger operand when neither is NaN; for equal operands (incl. +-0) either one
    XV_REF(ref_fmin, if (fpb<T>::isnan(x.a) || fpb<T>::isnan(x.b)) { r.skip = true; return; } r.exact = true; if (x.a < x.b) r.v = x.a; else if (x.b < x.a) r.v = x.b; else { r.v = x.a; r.alt = x.b; r.has_alt = true; })
    XV_REF(ref_fmax, if (fpb<T>::isnan(x.a) || fpb<T>::isnan(x.b)) { r.skip = true; return; } r.exact = true; if (x.a > x.b) r.v = x.a; else if (x.b > x.a) r.v = x.b; else { r.v = x.a; r.alt = x.b; r.has_alt = true; })
    XV_REF(ref_isnan, r.bv = fpb<T>::isnan(x.a);)
    XV_REF(ref_isinf, r.bv = fpb<T>::isinf(x.a);)
    XV_REF(ref_isfinite, r.bv = fpb<T>::isfinite(x.a);)
    XV_REF(ref_is_flint, r.bv = fpb<T>::isfinite(x.a) && std::trunc(x.a) == x.a;)
    XV_REF(ref_is_even, r.bv = fpb<T>::isfinite(x.a) && std::trunc(x.a) == x.a && std::fmod(x.a, (T)2) == (T)0;)
    XV_REF(ref_is_odd, r.bv = fpb<T>::isfinite(x.a) && std::trunc(x.a) == x.a && std::fmod(x.a, (T)2) != (T)0;)
    XV_REF(ref_fsign, if (fpb<T>::isnan(x.a)) r.v = x.a; else { r.v = x.a > 0 ? (T)1 : (x.a < 0 ? (T)-1 : (T)0); r.zsign = true; })
    XV_REF(ref_signnz, if (fpb<T>::isnan(x.a) || fpb<T>::iszero(x.a)) { r.skip = true; return; } r.v = fpb<T>::signbit(x.a) ? (T)-1 : (T)1;)
    XV_REF(ref_bitofsign, r.v = fpb<T>::val(fpb<T>::bits(x.a) & fpb<T>::SIGN); r.exact = true;)
    XV_REF(ref_nextafter, r.v = std::nextafter(x.a, x.b);)
    XV_REF(ref_ldexp, typename fp_traits<T>::I e; memcpy(&e, &x.b, sizeof e); long long ee = (long long)e; if (ee > 100000) ee = 100000; if (ee < -100000) ee = -100000; r.v = std::ldexp(x.a, (int)ee);)
    // frexp: +-0 -> (+-0, 0); inf/NaN -> (x, unspecified); otherwise x = m * 2^e with 0.5 <= |m| < 1
    XV_REF(ref_frexp, int e = 0; r.v = std::frexp(x.a, &e); r.iv = e; if (!fpb<T>::isfinite(x.a)) { r.skip1 = true; r.v = x.a; })

    // ---- C08: compared as numbers (zero of either sign, NaN <-> NaN) ----
    XV_REF(ref_ceil, r.v = std::ceil(x.a); r.zsign = true;)
    XV_REF(ref_floor, r.v = std::floor(x.a); r.zsign = true;)
    XV_REF(ref_trunc, r.v = std::trunc(x.a); r.zsign = true;)
    XV_REF(ref_round, r.v = std::round(x.a); r.zsign = true;)
    XV_REF(ref_nearbyint, r.v = std::nearbyint(x.a); r.zsign = true;)
    // integer results are demanded whenever they fit the destination type
    template <class T>
    inline bool fits_int(T v)
    {
        using I = typename fp_traits<T>::I;
        // [-2^(bits-1), 2^(bits-1)) ; both bounds are exactly representable
        const T lo = (T)std::numeric_limits<I>::min();
        return fpb<T>::isfinite(v) && v >= lo && v < -lo;
    }
    XV_REF(ref_nearbyint_as_int, T n = std::nearbyint(x.a); if (!fits_int<T>(n)) { r.skip = true; return; } r.iv = (int64_t)(typename fp_traits<T>::I)n;)
    XV_REF(ref_to_int, T n = std::trunc(x.a); if (!fits_int<T>(n)) { r.skip = true; return; } r.iv = (int64_t)(typename fp_traits<T>::I)n;)

    template <template <class> class R>
    inline OpSpec& def_fp(const char* name, const char* space, int param_kind = 0)
    {
        OpSpec& s = specs()[name];
        bool fresh = s.name.empty();
        s.name = name;
        if (fresh)
        {
            s.space = space;
            s.param_kind = param_kind;
        }
        s.fp_space = space;
        set_fp_refs<R>(s);
        return s;
    }

    inline void register_fp_specs()
    {
        def_fp<ref_fadd>("add", "bin");
        def_fp<ref_fsub>("sub", "bin");
        def_fp<ref_fmul>("mul", "bin");
        def_fp<ref_fdiv>("div", "bin");
        def_fp<ref_fsqrt>("sqrt", "un");
        def_fp<ref_fselfadd>("selfadd", "un");
        def_fp<ref_fselfsub>("selfsub", "un");
        def_fp<ref_fselfmul>("selfmul", "un");
        def_fp<ref_fselfdiv>("selfdiv", "un");
        def_fp<ref_fselfid>("selfid", "un");
        def_fp<ref_fselffma>("selffma", "un");
        def_fp<ref_fincr>("incr", "un");
        def_fp<ref_fdecr>("decr", "un");
        def_fp<ref_fincr_if>("incr_if", "un_mask");
        def_fp<ref_fdecr_if>("decr_if", "un_mask");
        def_fp<ref_fneg>("neg", "un");
        def_fp<ref_fabs>("abs", "un");
        def_fp<ref_copysign>("copysign", "bin");
        def_fp<ref_fand>("and", "bin");
        def_fp<ref_for>("or", "bin");
        def_fp<ref_fxor>("xor", "bin");
        def_fp<ref_fnot>("not", "un");
        def_fp<ref_fandnot>("andnot", "bin");
        def_fp<ref_ffma>("fma", "ter");
        def_fp<ref_ffms>("fms", "ter");
        def_fp<ref_ffnma>("fnma", "ter");
        def_fp<ref_ffnms>("fnms", "ter");
        def_fp<ref_fmin>("min", "bin");
        def_fp<ref_fmax>("max", "bin");
        def_fp<ref_isnan>("isnan", "un");
        def_fp<ref_isinf>("isinf", "un");
        def_fp<ref_isfinite>("isfinite", "un");
        def_fp<ref_is_flint>("is_flint", "rnd");
        def_fp<ref_is_even>("is_even", "rnd");
        def_fp<ref_is_odd>("is_odd", "rnd");
        def_fp<ref_fsign>("sign", "un");
        def_fp<ref_signnz>("signnz", "un");
        def_fp<ref_bitofsign>("bitofsign", "un");
        def_fp<ref_nextafter>("nextafter", "bin");
        def_fp<ref_ldexp>("ldexp", "ldexp");
        def_fp<ref_frexp>("frexp", "un");

        def_fp<ref_ceil>("ceil", "rnd");
        def_fp<ref_floor>("floor", "rnd");
        def_fp<ref_trunc>("trunc", "rnd");
        def_fp<ref_round>("round", "rnd");
        def_fp<ref_nearbyint>("nearbyint", "rnd");
        def_fp<ref_nearbyint>("rint", "rnd");
        def_fp<ref_nearbyint_as_int>("nearbyint_as_int", "rnd");
        def_fp<ref_to_int>("to_int", "rnd");
    }
}
