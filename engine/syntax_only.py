#!/usr/bin/env python3
"""syntax_only.py <compiler> <args...> -o <file>: runs `<compiler> -fsyntax-only <args>` and, when that succeeds,
writes <file> (so that vlib.build_object can cache a compile-only obligation like any other object)."""
import subprocess, sys
argv = sys.argv[1:]
out = None
if "-o" in argv:
    i = argv.index("-o")
    out = argv[i + 1]
    del argv[i:i + 2]
rc = subprocess.call([argv[0], "-fsyntax-only"] + argv[1:])
if rc == 0 and out:
    open(out, "w").write("syntax-only ok\n")
sys.exit(rc)
