#pragma once
#include "refs_int.hpp"

namespace xv
{
    inline void register_all_specs()
    {
        register_int_specs();
    }
}
