#pragma once
#include "refs_cmp.hpp"
#include "refs_conv.hpp"
#include "refs_perm.hpp"
#include "refs_red.hpp"
#include "refs_fp.hpp"
#include "refs_int.hpp"

namespace xv
{
    inline void register_all_specs()
    {
        register_int_specs();
        register_fp_specs();
        register_cmp_specs();
        register_conv_specs();
        register_red_specs();
        register_perm_specs();
    }
}
