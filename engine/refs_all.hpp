#pragma once
#include "refs_cmp.hpp"
#include "refs_conv.hpp"
#include "refs_perm.hpp"
#include "refs_red.hpp"
#include "refs_fp.hpp"
#include "refs_int.hpp"

namespace xv
{
    inline void register_all_specs()
    {
        register_int_specs();
        register_fp_specs();
        register_cmp_specs();
        register_conv_specs();
        register_red_specs();
        register_perm_specs();
        // scalar-operand spellings (harness: one kernel call per lane): the reference of the base operation over the
        // small pair space
        for (const char* base : { "add", "sub", "mul", "div", "mod", "and", "or", "xor", "eq", "ne", "lt", "le", "gt", "ge" })
            for (const char* suf : { ".rs", ".ls", ".rsa" })
            {
                auto it = specs().find(base);
                if (it == specs().end())
                    continue;
                OpSpec s = it->second;
                s.name = std::string(base) + suf;
                s.space = "bin_s";
                if (!s.fp_space.empty())
                    s.fp_space = "bin_s";
                specs()[s.name] = s;
            }
    }
}
