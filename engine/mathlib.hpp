// Elementary-function table for the math explorer: references (glibc double for float32 arguments,
// glibc long double for double arguments, MPFR at 160 bits as arbiter), frozen accuracy bounds of
// DESIGN.md section 8, loop-tick bounds of 8.3.
#pragma once
#include <mpfr.h>

#include <cfloat>
#include <cmath>

#include "elementwise.hpp"

namespace xv
{
    enum MRule
    {
        R_PLAIN, // err <= bound ulp of the exact result
        R_POW, // err <= 4 * (1 + |y ln x|) ulp
        R_TGAMMA, // bound for |x| <= 33, 256 beyond (float); see table for double
        R_LGAMMA, // err measured in ulp of max(|result|, 1)
        R_ERFC64, // piecewise bound for double erfc
        R_EXACTREL, // bit-for-bit identity with another function (fabs == abs, rint == nearbyint): handled by C12
    };

    typedef double (*d1)(double);
    typedef double (*d2)(double, double);
    typedef long double (*l1)(long double);
    typedef long double (*l2)(long double, long double);
    typedef int (*mp1)(mpfr_ptr, mpfr_srcptr, mpfr_rnd_t);
    typedef int (*mp2)(mpfr_ptr, mpfr_srcptr, mpfr_srcptr, mpfr_rnd_t);

    struct MFun
    {
        const char* name;
        int arity;
        d1 r1;
        d2 r2;
        l1 q1;
        l2 q2;
        mp1 m1;
        mp2 m2;
        double bound32, bound64;
        MRule rule;
        unsigned tick32, tick64; // frozen loop-iteration bounds (8.3)
        bool odd, even; // exact symmetry demanded by C12
        int out_slot; // for sincos: 0 = sin, 1 = cos
        const char* impl; // name of the harness op (sincos for both halves)
    };

    inline double ref_exp10(double x) { return ::exp10(x); }
    inline long double ref_exp10l(long double x) { return ::exp10l(x); }
    inline int mp_exp10(mpfr_ptr r, mpfr_srcptr x, mpfr_rnd_t m) { return mpfr_exp10(r, x, m); }
    inline double ref_lgamma(double x)
    {
        int s;
        return ::lgamma_r(x, &s);
    }
    inline long double ref_lgammal(long double x)
    {
        int s;
        return ::lgammal_r(x, &s);
    }
    inline int mp_lgamma(mpfr_ptr r, mpfr_srcptr x, mpfr_rnd_t m)
    {
        int s;
        return mpfr_lgamma(r, &s, x, m);
    }
    inline int mp_cbrt(mpfr_ptr r, mpfr_srcptr x, mpfr_rnd_t m) { return mpfr_cbrt(r, x, m); }

#define XV_F1(N, B32, B64, RULE, T32, T64, ODD, EVEN) \
    { #N, 1, (d1)::N, nullptr, (l1)::N##l, nullptr, (mp1)mpfr_##N, nullptr, B32, B64, RULE, T32, T64, ODD, EVEN, 0, #N }

    inline const std::vector<MFun>& mfuns()
    {
        static const std::vector<MFun> f = {
            XV_F1(sqrt, 0.5, 0.5, R_PLAIN, 0, 0, false, false),
            XV_F1(exp, 2.0, 4.5, R_PLAIN, 0, 0, false, false),
            XV_F1(exp2, 2.0, 4.5, R_PLAIN, 0, 0, false, false),
            { "exp10", 1, ref_exp10, nullptr, ref_exp10l, nullptr, mp_exp10, nullptr, 1.75, 4.5, R_PLAIN, 0, 0, false, false, 0, "exp10" },
            XV_F1(expm1, 2.5, 4.5, R_PLAIN, 0, 0, false, false),
            XV_F1(log, 1.25, 4.5, R_PLAIN, 0, 0, false, false),
            XV_F1(log2, 2.25, 4.5, R_PLAIN, 0, 0, false, false),
            XV_F1(log10, 1.25, 4.5, R_PLAIN, 0, 0, false, false),
            XV_F1(log1p, 1.25, 4.5, R_PLAIN, 0, 0, false, false),
            XV_F1(sin, 2.75, 4.5, R_PLAIN, 128, 64, true, false),
            XV_F1(cos, 2.75, 4.5, R_PLAIN, 128, 64, false, true),
            XV_F1(tan, 4.0, 4.5, R_PLAIN, 128, 64, true, false),
            XV_F1(asin, 2.75, 4.5, R_PLAIN, 0, 0, true, false),
            XV_F1(acos, 1.75, 4.5, R_PLAIN, 0, 0, false, false),
            XV_F1(atan, 2.75, 4.5, R_PLAIN, 0, 0, true, false),
            XV_F1(sinh, 3.25, 4.5, R_PLAIN, 0, 0, true, false),
            XV_F1(cosh, 3.25, 4.5, R_PLAIN, 0, 0, false, true),
            XV_F1(tanh, 1.75, 4.5, R_PLAIN, 0, 0, true, false),
            XV_F1(asinh, 4.25, 4.5, R_PLAIN, 0, 0, true, false),
            XV_F1(acosh, 2.5, 4.5, R_PLAIN, 0, 0, false, false),
            XV_F1(atanh, 2.25, 4.5, R_PLAIN, 0, 0, true, false),
            { "cbrt", 1, (d1)::cbrt, nullptr, (l1)::cbrtl, nullptr, mp_cbrt, nullptr, 1.0, 4.5, R_PLAIN, 0, 0, true, false, 0, "cbrt" },
            XV_F1(erf, 2.75, 96.0, R_PLAIN, 0, 0, true, false),
            XV_F1(erfc, 96.0, 64.0, R_ERFC64, 0, 0, false, false),
            { "tgamma", 1, (d1)::tgamma, nullptr, (l1)::tgammal, nullptr, (mp1)mpfr_gamma, nullptr, 14.0, 16.0, R_TGAMMA, 80, 256, false, false, 0, "tgamma" },
            { "lgamma", 1, ref_lgamma, nullptr, ref_lgammal, nullptr, mp_lgamma, nullptr, 8.0, 4.0, R_LGAMMA, 8, 64, false, false, 0, "lgamma" },
            { "sincos.sin", 1, (d1)::sin, nullptr, (l1)::sinl, nullptr, (mp1)mpfr_sin, nullptr, 2.75, 4.5, R_PLAIN, 128, 64, false, false, 0, "sincos" },
            { "sincos.cos", 1, (d1)::cos, nullptr, (l1)::cosl, nullptr, (mp1)mpfr_cos, nullptr, 2.75, 4.5, R_PLAIN, 128, 64, false, false, 1, "sincos" },
            { "atan2", 2, nullptr, (d2)::atan2, nullptr, (l2)::atan2l, nullptr, (mp2)mpfr_atan2, 3.0, 4.5, R_PLAIN, 0, 0, false, false, 0, "atan2" },
            { "hypot", 2, nullptr, (d2)::hypot, nullptr, (l2)::hypotl, nullptr, (mp2)mpfr_hypot, 1.5, 4.5, R_PLAIN, 0, 0, false, false, 0, "hypot" },
            { "pow", 2, nullptr, (d2)::pow, nullptr, (l2)::powl, nullptr, (mp2)mpfr_pow, 4.0, 4.0, R_POW, 0, 0, false, false, 0, "pow" },
        };
        return f;
    }
    inline const MFun* find_mfun(const std::string& n)
    {
        for (auto& f : mfuns())
            if (n == f.name)
                return &f;
        return nullptr;
    }

    // ulp(v) = 2^(floor(log2|v|) - p + 1), p = 24 / 53, never below the spacing of the normal range's first binade
    template <class T>
    inline long double ulp_of(long double v)
    {
        constexpr int p = std::is_same<T, float>::value ? 24 : 53;
        constexpr int emin = std::is_same<T, float>::value ? -126 : -1022;
        if (v == 0)
            return std::ldexp(1.0L, emin - p + 1);
        int e;
        std::frexp(v < 0 ? -v : v, &e); // |v| in [2^(e-1), 2^e)
        int fl = e - 1;
        if (fl < emin)
            fl = emin;
        return std::ldexp(1.0L, fl - p + 1);
    }

    template <class T>
    struct mlim;
    template <>
    struct mlim<float>
    {
        static constexpr long double MAX = FLT_MAX, MIN = FLT_MIN;
    };
    template <>
    struct mlim<double>
    {
        static constexpr long double MAX = DBL_MAX, MIN = DBL_MIN;
    };

    // verdict for one lane
    enum Verdict
    {
        V_PASS,
        V_SKIP, // outside the property's domain
        V_FAIL_ACC, // accuracy bound exceeded
        V_FAIL_GRACE, // graceful-degradation predicate violated
    };

    struct Judge
    {
        Verdict v;
        double err; // measured error in ulp (accuracy cases)
        double bound;
    };

    // bound in ulp for function f at argument(s) x (, y) with exact result r
    template <class T>
    inline double bound_of_batch(const MFun& f, long double x, long double y, long double r);

    // C17 judges the scalar overloads (the C library's functions behind xsimd's scalar names) against the bound the
    // property text states for the function family, not against the tighter per-function constants frozen for the batch kernels
    inline bool& scalar_bounds()
    {
        static bool v = false;
        return v;
    }

    template <class T>
    inline double bound_of(const MFun& f, long double x, long double y, long double r)
    {
        constexpr bool F = std::is_same<T, float>::value;
        double B = bound_of_batch<T>(f, x, y, r);
        if (!scalar_bounds())
            return B;
        switch (f.rule)
        {
        case R_POW:
            return B;
        case R_TGAMMA:
            return F ? (fabsl(x) <= 33 ? 16.0 : 256.0) : B;
        case R_ERFC64:
            return F ? 128.0 : B;
        case R_LGAMMA:
            return B < 8.0 ? 8.0 : B;
        default:
            return (B > 0.5 && B < 4.5) ? 4.5 : B; // sqrt keeps 0.5
        }
    }

    template <class T>
    inline double bound_of_batch(const MFun& f, long double x, long double y, long double r)
    {
        constexpr bool F = std::is_same<T, float>::value;
        switch (f.rule)
        {
        case R_POW:
            return 4.0 * (1.0 + (double)fabsl(y * logl(fabsl(x))));
        case R_TGAMMA:
            if (F)
                return fabsl(x) <= 33 ? 14.0 : 256.0;
            // double: |x| <= 33: 16; 33 < x <= 171.6: 32; x < -33 away from poles: 2^11
            return fabsl(x) <= 33 ? 16.0 : (x > 0 ? 32.0 : 2048.0);
        case R_ERFC64:
            if (F)
                return 96.0;
            // double: x < 0: 64; [0, 2.2): 64; [2.2, 6): 2^16; [6, 27): 2^26
            return x < 2.2L ? 64.0 : (x < 6 ? 65536.0 : 67108864.0);
        default:
            (void)r;
            return F ? f.bound32 : f.bound64;
        }
    }

    // Judges observed value `obs` against exact result `r` (computed from arguments x, y).
    // in_domain: the arguments are finite and not subnormal (the accuracy claim's premise).
    template <class T>
    inline Judge judge(const MFun& f, long double x, long double y, long double r, T obs)
    {
        Judge J { V_PASS, 0, 0 };
        if (r != r)
        {
            J.v = V_SKIP; // outside the mathematical domain: C12's business
            return J;
        }
        const long double MAX = mlim<T>::MAX, MIN = mlim<T>::MIN;
        const long double ar = r < 0 ? -r : r;
        const long double o = obs;
        const bool onan = obs != obs;
        if (f.rule == R_LGAMMA)
        {
            // error in ulp of max(|result|, 1); overflow side as for the others
            if (ar > MAX / 4)
            {
                bool ok = !onan && (o > 0) == (r > 0) && (std::isinf((double)o) || (o < 0 ? -o : o) >= MAX / 16);
                J.v = ok ? V_PASS : V_FAIL_GRACE;
                return J;
            }
            if (onan)
            {
                J.v = V_FAIL_GRACE;
                return J;
            }
            long double u = ulp_of<T>(ar > 1 ? ar : 1.0L);
            J.err = (double)((o > r ? o - r : r - o) / u);
            J.bound = bound_of<T>(f, x, y, r);
            J.v = J.err <= J.bound ? V_PASS : V_FAIL_ACC;
            return J;
        }
        if (ar > MAX / 4)
        {
            // overflow side: correct sign, +-inf or >= MAX/16, never NaN
            bool ok = !onan && (o > 0) == (r > 0) && (std::isinf((double)o) || (o < 0 ? -o : o) >= MAX / 16);
            J.v = ok ? V_PASS : V_FAIL_GRACE;
            return J;
        }
        if (ar < 4 * MIN)
        {
            // underflow side (incl. an exact zero): magnitude <= 16*MIN, correct sign unless zero, never NaN
            long double ao = o < 0 ? -o : o;
            bool ok = !onan && ao <= 16 * MIN && (ao == 0 || r == 0 || (o > 0) == (r > 0));
            J.v = ok ? V_PASS : V_FAIL_GRACE;
            return J;
        }
        if (onan || std::isinf((double)o))
        {
            J.v = V_FAIL_ACC;
            J.err = HUGE_VAL;
            J.bound = bound_of<T>(f, x, y, r);
            return J;
        }
        long double u = ulp_of<T>(ar);
        J.err = (double)((o > r ? o - r : r - o) / u);
        J.bound = bound_of<T>(f, x, y, r);
        J.v = J.err <= J.bound ? V_PASS : V_FAIL_ACC;
        return J;
    }

    // MPFR at 160 bits: the arbiter for candidate violations
    inline long double mpfr_ref(const MFun& f, long double x, long double y)
    {
        mpfr_t a, b, r;
        mpfr_init2(a, 160);
        mpfr_init2(b, 160);
        mpfr_init2(r, 160);
        mpfr_set_ld(a, x, MPFR_RNDN);
        mpfr_set_ld(b, y, MPFR_RNDN);
        if (f.arity == 1)
            f.m1(r, a, MPFR_RNDN);
        else
            f.m2(r, a, b, MPFR_RNDN);
        long double v = mpfr_get_ld(r, MPFR_RNDN);
        mpfr_clear(a);
        mpfr_clear(b);
        mpfr_clear(r);
        return v;
    }
    // error in ulps measured against MPFR with the subtraction done in MPFR (no cancellation in the reference)
    template <class T>
    inline double mpfr_err_ulp(const MFun& f, long double x, long double y, T obs, bool lgamma_scale)
    {
        mpfr_t a, b, r, o;
        mpfr_init2(a, 160);
        mpfr_init2(b, 160);
        mpfr_init2(r, 200);
        mpfr_init2(o, 200);
        mpfr_set_ld(a, x, MPFR_RNDN);
        mpfr_set_ld(b, y, MPFR_RNDN);
        if (f.arity == 1)
            f.m1(r, a, MPFR_RNDN);
        else
            f.m2(r, a, b, MPFR_RNDN);
        long double rv = mpfr_get_ld(r, MPFR_RNDN);
        mpfr_set_ld(o, (long double)obs, MPFR_RNDN);
        mpfr_sub(o, o, r, MPFR_RNDN);
        long double d = fabsl(mpfr_get_ld(o, MPFR_RNDN));
        long double ar = fabsl(rv);
        if (lgamma_scale && ar < 1)
            ar = 1;
        double e = (double)(d / ulp_of<T>(ar));
        mpfr_clear(a);
        mpfr_clear(b);
        mpfr_clear(r);
        mpfr_clear(o);
        return e;
    }
}
