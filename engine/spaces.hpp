// Operand spaces per (space key, element type, tier): the stated finite alphabets of DESIGN.md 6.
#pragma once
#include <cfloat>

#include "elementwise.hpp"
#include "refs_perm.hpp"

namespace xv
{
    inline int max_lanes(int type) { return 64 / xv_type_size[type]; }
    inline bool is_int_type(int t) { return t <= XV_U64; }

    inline Alpha bool_alpha() { return Alpha::of({ 0, 1 }); }

    inline SubSpace mk(std::string label, std::vector<Alpha> al, int shifts, std::vector<int> order = {})
    {
        SubSpace s;
        s.label = std::move(label);
        s.al = std::move(al);
        s.shifts = shifts;
        s.order = std::move(order);
        s.finish();
        return s;
    }

    // value alphabet of one operand of element type t
    inline Alpha value_alpha(int t, const Tier& T, bool small)
    {
        int bits = xv_type_size[t] * 8;
        if (is_int_type(t))
        {
            if (bits == 8)
                return small ? int_lattice(8, T.seed, 4, true) : Alpha::ALL(8);
            return int_lattice(bits, T.seed, small ? 8 : T.nseed, small);
        }
        if (t == XV_F32)
            return fp_lattice<float>(T.seed, small ? 8 : T.nseed, small ? 0 : 1);
        return fp_lattice<double>(T.seed, small ? 8 : T.nseed, small ? 0 : 1);
    }

    inline std::vector<SubSpace> make_spaces(const std::string& key, const xv_op& sig, const Tier& T)
    {
        const int t = sig.elem;
        const int bits = xv_type_size[t] * 8;
        const int ML = max_lanes(t);
        std::vector<SubSpace> out;
        const bool isint = is_int_type(t);
        if (key == "un")
        {
            if (isint)
            {
                if (bits <= 16)
                    out.push_back(mk("ALL" + std::to_string(bits) + " x lanes", { Alpha::ALL(bits) }, ML));
                else
                    out.push_back(mk("L" + std::to_string(bits) + " x lanes", { value_alpha(t, T, false) }, ML));
            }
            else
            {
                out.push_back(mk("FL x lanes", { value_alpha(t, T, false) }, ML));
                if (t == XV_F32)
                {
                    if (T.thorough)
                        out.push_back(mk("ALL32", { Alpha::ALL(32) }, 1));
                    else
                        out.push_back(mk("BINADES32 x MANT(64)", { binades<float>(64, T.seed).odd() }, 1));
                }
                else
                    out.push_back(mk("BINADES64 x MANT", { binades<double>(T.thorough ? 256 : 16, T.seed).odd() }, 1));
            }
        }
        else if (key == "bin")
        {
            if (isint && bits == 8)
                out.push_back(mk("ALL8^2 x lanes", { Alpha::ALL(8), Alpha::ALL(8) }, ML));
            else if (isint && bits == 16)
            {
                Alpha L = value_alpha(t, T, false);
                out.push_back(mk("L16^2 x lanes", { L, L }, ML));
                if (T.thorough)
                {
                    out.push_back(mk("ALL16^2", { Alpha::ALL(16), Alpha::ALL(16) }, 1));
                }
                else
                {
                    out.push_back(mk("ALL16 x L16", { Alpha::ALL(16), L.odd() }, 1));
                    out.push_back(mk("L16 x ALL16", { L, Alpha::ALL(16).odd() }, 1));
                }
            }
            else
            {
                Alpha L = value_alpha(t, T, false);
                // keep the product near 2^21 points incl. lane shifts
                int sh = ML;
                while (sh > 1 && L.size() * L.size() * (uint64_t)sh > (T.thorough ? (1ull << 26) : (1ull << 23)))
                    sh /= 2;
                if (sh == ML)
                    out.push_back(mk("L^2 x lanes", { L, L }, ML));
                else
                {
                    out.push_back(mk("L^2", { L, L.odd() }, 1));
                    Alpha S = value_alpha(t, T, true);
                    out.push_back(mk("Ls^2 x lanes", { S, S }, ML));
                }
            }
        }
        else if (key == "bin_s")
        {
            Alpha S = value_alpha(t, T, true);
            out.push_back(mk("Ls^2 x lanes", { S, S }, ML));
        }
        else if (key == "ter")
        {
            Alpha S = value_alpha(t, T, true);
            if (isint && bits == 8)
            {
                if (T.thorough)
                    out.push_back(mk("ALL8^3", { Alpha::ALL(8), Alpha::ALL(8), Alpha::ALL(8).odd() }, 1));
                else
                    out.push_back(mk("ALL8^2 x L8", { Alpha::ALL(8), Alpha::ALL(8), S.odd() }, 1));
            }
            int sh = ML;
            while (sh > 1 && S.size() * S.size() * S.size() * (uint64_t)sh > (T.thorough ? (1ull << 25) : (1ull << 22)))
                sh /= 2;
            out.push_back(mk("Ls^3 x lanes", { S, S, sh == 1 ? S.odd() : S }, sh));
        }
        else if (key == "un_mask")
        {
            Alpha V = (isint && bits <= 16) ? Alpha::ALL(bits) : value_alpha(t, T, false);
            out.push_back(mk("V x {0,1} x lanes", { V, bool_alpha() }, ML));
        }
        else if (key == "sel")
        {
            // operands (mask, a, b): the mask varies fastest so one batch mixes true and false lanes
            Alpha V = (isint && bits == 8) ? Alpha::ALL(8) : value_alpha(t, T, bits > 8 ? true : false);
            out.push_back(mk("{0,1} x V^2 x lanes", { bool_alpha(), V, V }, ML, { 1, 2, 0 }));
        }
        else if (key == "shift_v")
        {
            Alpha V = (bits <= 16) ? Alpha::ALL(bits) : value_alpha(t, T, false);
            Alpha C = Alpha::range(0, (uint64_t)bits);
            if (bits == 16 && !T.thorough)
                out.push_back(mk("ALL16 x counts", { V, C.odd() }, 1));
            else
                out.push_back(mk("V x counts x lanes", { V, C }, ML));
        }
        else if (key == "rnd")
        {
            // rounding-sensitive values: every k/2 and its neighbours, windows around the magnitudes
            // where the add-and-subtract / conversion tricks change behaviour
            std::vector<uint64_t> v;
            auto addv = [&](double d)
            {
                if (t == XV_F32)
                {
                    uint64_t b = to_bits<float>((float)d);
                    for (int dd = -1; dd <= 1; ++dd)
                    {
                        v.push_back(b + dd);
                        v.push_back((b + dd) ^ 0x80000000ull);
                    }
                }
                else
                {
                    uint64_t b = to_bits<double>(d);
                    for (int dd = -1; dd <= 1; ++dd)
                    {
                        v.push_back(b + dd);
                        v.push_back((b + dd) ^ 0x8000000000000000ull);
                    }
                }
            };
            const int K = T.thorough ? (1 << 16) : (1 << 13);
            for (int k = 1; k <= K; ++k)
                addv(k * 0.5);
            const int W = 64;
            std::vector<int> centers = { 22, 23, 24, 25, 30, 31, 32, 33 };
            if (t == XV_F64)
                for (int c : { 51, 52, 53, 54, 62, 63, 64 })
                    centers.push_back(c);
            else
                for (int c : { 62, 63, 64 })
                    centers.push_back(c);
            for (int c : centers)
            {
                if (t == XV_F32)
                    window<float>(v, std::ldexp(1.0f, c), W);
                else
                    window<double>(v, std::ldexp(1.0, c), W);
            }
            if (t == XV_F32)
                for (float c : { 0.5f, 1.0f, 1.5f, 2.5f, 0.49999997f })
                    window<float>(v, c, 4);
            else
                for (double c : { 0.5, 1.0, 1.5, 2.5, 0.49999999999999994 })
                    window<double>(v, c, 4);
            dedup_keep_order(v);
            out.push_back(mk("k/2 +- ulp, windows at 2^22..2^64", { Alpha::of(v).odd() }, 1));
            auto more = make_spaces("un", sig, T);
            for (auto& m : more)
                out.push_back(m);
        }
        else if (key == "ldexp")
        {
            // (value, exponent): value lattice x every exponent of a range wider than the format's
            Alpha V = value_alpha(t, T, true);
            int R = t == XV_F32 ? 300 : 2200;
            std::vector<uint64_t> e;
            for (int k = 0; k <= R; ++k)
            {
                e.push_back((uint64_t)(int64_t)k);
                if (k)
                    e.push_back((uint64_t)(int64_t)-k);
            }
            const uint64_t M = t == XV_F32 ? 0xFFFFFFFFull : ~0ull;
            for (auto& x : e)
                x &= M;
            out.push_back(mk("Ls x exponents", { V, Alpha::of(e).odd() }, 1));
            // results in the subnormal range: ordinary mantissas (seeded) in the lowest binades x the exponents that
            // push them below the normal range - where a result rounded more than once differs from the exact scaling
            {
                const int mant = t == XV_F32 ? 23 : 52;
                std::vector<uint64_t> xs, es;
                uint64_t sd = T.seed * 0x51ed27 + (uint64_t)t;
                const int NX = T.thorough ? 16384 : 2048;
                for (int i = 0; i < NX; ++i)
                {
                    uint64_t r = splitmix64(sd);
                    uint64_t m = r & ((1ull << mant) - 1);
                    uint64_t ex = 1 + (r >> 53) % 40; // biased exponent 1..40
                    uint64_t sg = (r >> 63) << (t == XV_F32 ? 31 : 63);
                    xs.push_back(sg | (ex << mant) | m);
                }
                for (int k = 1; k <= (t == XV_F32 ? 64 : 96); ++k)
                    es.push_back((uint64_t)(int64_t)-k & M);
                out.push_back(mk("seeded mantissas in the lowest binades x subnormal-making exponents", { Alpha::of(xs), Alpha::of(es).odd() }, 1));
            }
        }
        else if (key == "conv")
        {
            // keyed by the SOURCE type of the conversion
            const int ft = sig.in_t[0];
            const int fbits = xv_type_size[ft] * 8;
            const int FML = max_lanes(ft) > ML ? max_lanes(ft) : ML;
            if (is_int_type(ft) && fbits <= 16)
                out.push_back(mk("ALL x lanes", { Alpha::ALL(fbits) }, FML));
            else if (is_int_type(ft))
            {
                std::vector<uint64_t> v = value_alpha(ft, T, false).v;
                const uint64_t M = fbits == 64 ? ~0ull : 0xFFFFFFFFull;
                // windows around the magnitudes where int->float rounding and the magic-number emulations change regime
                for (int k : { 23, 24, 25, 31, 32, 52, 53, 54, 62, 63 })
                {
                    if (k >= fbits)
                        continue;
                    for (int d = -4; d <= 4; ++d)
                    {
                        v.push_back(((1ull << k) + (uint64_t)(int64_t)d) & M);
                        v.push_back((0 - (1ull << k) + (uint64_t)(int64_t)d) & M);
                    }
                }
                // half-way cases of int -> float (p = 24) and int -> double (p = 53): 2^k + 2^(k-p) +- 1
                for (int p : { 24, 53 })
                    for (int k = p; k < fbits; ++k)
                        for (int d = -1; d <= 1; ++d)
                        {
                            uint64_t h = (1ull << k) + (1ull << (k - p)) + (uint64_t)(int64_t)d;
                            v.push_back(h & M);
                            v.push_back((0 - h) & M);
                            uint64_t h3 = (1ull << k) + 3 * (1ull << (k - p)) + (uint64_t)(int64_t)d;
                            v.push_back(h3 & M);
                        }
                dedup_keep_order(v);
                out.push_back(mk("L + windows + half-way cases x lanes", { Alpha::of(v) }, FML));
                if (fbits == 32)
                {
                    if (T.thorough)
                        out.push_back(mk("ALL32", { Alpha::ALL(32) }, 1));
                    else
                    {
                        Alpha s = Alpha::ALL(32);
                        s.step = 251;
                        out.push_back(mk("every 251st 32-bit pattern", { s }, 1));
                    }
                }
            }
            else
            {
                std::vector<uint64_t> v = value_alpha(ft, T, false).v;
                // k + {0, +-0.5, +-(0.5 -+ ulp)} near the integer-range boundaries
                for (int k : { 7, 8, 15, 16, 23, 24, 31, 32, 52, 53, 63, 64 })
                    for (double off : { 0.0, 0.5, -0.5, 1.0, -1.0 })
                    {
                        double c = std::ldexp(1.0, k) + off;
                        if (ft == XV_F32)
                        {
                            window<float>(v, (float)c, 2);
                        }
                        else
                            window<double>(v, c, 2);
                    }
                dedup_keep_order(v);
                out.push_back(mk("FL + integer-boundary windows x lanes", { Alpha::of(v) }, FML));
                if (ft == XV_F32)
                {
                    if (T.thorough)
                        out.push_back(mk("ALL32", { Alpha::ALL(32) }, 1));
                    else
                    {
                        Alpha s = Alpha::ALL(32);
                        s.step = 251;
                        out.push_back(mk("every 251st float32 pattern", { s }, 1));
                    }
                }
                else
                    out.push_back(mk("BINADES64 x MANT", { binades<double>(T.thorough ? 256 : 32, T.seed).odd() }, 1));
            }
        }
        else if (key == "bytes")
        {
            out.push_back(mk("ALL8 x 64 byte offsets", { Alpha::ALL(8) }, 64));
            std::vector<uint64_t> v;
            uint64_t s = T.seed + 99;
            for (int i = 0; i < 4099; ++i)
                v.push_back(splitmix64(s) & 0xFF);
            Alpha a = Alpha::of(v);
            out.push_back(mk("4099 seed bytes", { a }, 1));
        }
        else if (key == "mask1")
        {
            SubSpace s;
            s.label = "every 16-bit mask value (lanes 0..15), structured upper lanes";
            s.al.resize(1);
            s.mask_kind = 1;
            s.mask_groups = 1ull << 16;
            s.finish();
            out.push_back(s);
        }
        else if (key == "mask2" || key == "mask2s")
        {
            SubSpace s;
            s.label = "all pairs of 8-bit masks (lanes 0..7), structured upper lanes";
            s.al.resize(2);
            s.mask_kind = 2;
            s.mask_groups = 1ull << 16;
            s.finish();
            out.push_back(s);
            if (key == "mask2s")
                return out;
            SubSpace u;
            u.label = "every 16-bit mask x 16 special partners";
            u.al.resize(2);
            u.mask_kind = 3;
            u.mask_groups = T.thorough ? (1ull << 20) : (1ull << 18);
            u.finish();
            out.push_back(u);
        }
        else if (key == "mask_un")
        {
            out.push_back(mk("{0,1} x lanes", { bool_alpha() }, ML));
        }
        else if (key == "mask_bin")
        {
            out.push_back(mk("{0,1}^2 x lanes", { bool_alpha(), bool_alpha() }, ML));
        }
        else
        {
            fprintf(stderr, "unknown space key %s\n", key.c_str());
            exit(2);
        }
        return out;
    }

    // lane-aware witness space for the reductions (C09) of element type t on batches of L lanes
    inline SubSpace make_witness_space(int t, int L, const Tier& T)
    {
        SubSpace s;
        s.label = "witness placements, L=" + std::to_string(L);
        s.al.resize(1);
        s.witness_L = L;
        s.witness_type = t;
        const int bits = xv_type_size[t] * 8;
        if (is_int_type(t))
        {
            const uint64_t M = bits == 64 ? ~0ull : ((1ull << bits) - 1);
            const uint64_t MIN = 1ull << (bits - 1);
            s.witness_vals = { 1, M /* -1 or MAX */, MIN - 1, MIN, 1ull << (bits - 2), 7, MIN + 1, M - 1 };
            s.witness_vals2 = { 1, M, MIN };
            s.witness_lattice = (bits == 8) ? Alpha::ALL(8).odd().v : int_lattice(bits, T.seed, T.nseed).v;
        }
        else
        {
            auto f = [&](double d)
            { return t == XV_F32 ? to_bits<float>((float)d) : to_bits<double>(d); };
            s.witness_vals = { f(1), f(-1), f(1024), f(-1024), f(0.5), f(-7), f(1e6), f(-0.25) };
            s.witness_vals2 = { f(1), f(-1), f(512.5) };
            std::vector<uint64_t> v;
            for (int k = -40; k <= 40; ++k)
                v.push_back(f(k * 0.25));
            for (int k = -12; k <= 20; ++k)
            {
                v.push_back(f(std::ldexp(1.0, k)));
                v.push_back(f(-std::ldexp(1.0, k)));
                v.push_back(f(std::ldexp(1.0, k) * 1.0000001));
            }
            // moderate-magnitude seed values (inexact sums: judged by the (n-1)-rounding bound)
            uint64_t sd = T.seed * 77 + 5;
            for (int k = 0; k < 4 * T.nseed; ++k)
            {
                uint64_t r = splitmix64(sd);
                double m = 1.0 + (double)(r >> 12) / (double)(1ull << 52);
                v.push_back(f(std::ldexp(m, (int)(r % 30) - 10) * ((r >> 40 & 1) ? -1 : 1)));
            }
            // extremes for max/min (sums involving them are outside the bound's premise or exact)
            v.push_back(f(t == XV_F32 ? 3.4028234663852886e38 : 1.7976931348623157e308));
            v.push_back(f(t == XV_F32 ? -3.4028234663852886e38 : -1.7976931348623157e308));
            v.push_back(f(t == XV_F32 ? 1.17549435e-38 : 2.2250738585072014e-308));
            v.push_back(f(0.0));
            v.push_back(f(-0.0));
            dedup_keep_order(v);
            if (v.size() % 2 == 0)
                v.push_back(v[1]);
            s.witness_lattice = v;
        }
        s.finish();
        return s;
    }

    // C13: subject tuples and companion values for the placement space of one op signature
    inline std::vector<uint64_t> tiny_alpha(int t, const Tier& T)
    {
        if (t == XV_BOOL)
            return { 0, 1 };
        const int bits = xv_type_size[t] * 8;
        if (is_int_type(t))
        {
            const uint64_t M = bits == 64 ? ~0ull : ((1ull << bits) - 1);
            const uint64_t MIN = 1ull << (bits - 1);
            std::vector<uint64_t> v = { 0, 1, M, MIN, MIN - 1, 2, 0x5555555555555555ull & M, 3, MIN + 1, M - 1, 0x0F0F0F0F0F0F0F0Full & M, 7 };
            uint64_t s = T.seed + 11;
            v.push_back(splitmix64(s) & M);
            return v;
        }
        auto f = [&](double d)
        { return t == XV_F32 ? to_bits<float>((float)d) : to_bits<double>(d); };
        std::vector<uint64_t> v = { f(0.0), f(-0.0), f(1.0), f(-1.5), f(__builtin_nan("")), f(__builtin_inf()), f(-__builtin_inf()),
                                    t == XV_F32 ? to_bits<float>(FLT_MAX) : to_bits<double>(DBL_MAX), t == XV_F32 ? 1ull : 1ull, f(16777217.0), f(0.3), f(-2.5), f(1e-30), f(3.5) };
        return v;
    }
    inline SubSpace make_placement_space(const std::string& key, const xv_op& sig, int L, const Tier& T)
    {
        SubSpace s;
        s.label = "placement: subject tuple in lane k among companions vs broadcast, L=" + std::to_string(L);
        s.al.resize((size_t)sig.nin);
        s.placement_L = L;
        std::vector<std::vector<uint64_t>> alph((size_t)sig.nin);
        for (int k = 0; k < sig.nin; ++k)
        {
            alph[(size_t)k] = tiny_alpha(sig.in_t[k], T);
            if (key == "shift_v" && k == 1)
                alph[(size_t)k] = { 0, 1, (uint64_t)(xv_type_size[sig.elem] * 8 - 1), 3 };
            if (key == "ldexp" && k == 1)
                alph[(size_t)k] = { 0, 1, (uint64_t)-1 & (sig.in_t[1] == XV_I32 ? 0xFFFFFFFFull : ~0ull), 10, 100 };
            s.place_comp.push_back(alph[(size_t)k]);
        }
        // subject tuples: full product for one operand, 8^2 for two, 5^3 for three
        const size_t cap = T.thorough ? (sig.nin == 1 ? 64 : sig.nin == 2 ? 13 : 8) : (sig.nin == 1 ? 64 : sig.nin == 2 ? 8 : 5);
        std::vector<size_t> idx((size_t)sig.nin, 0);
        for (;;)
        {
            std::vector<uint64_t> tup;
            for (int k = 0; k < sig.nin; ++k)
                tup.push_back(alph[(size_t)k][idx[(size_t)k]]);
            s.place_subj.push_back(tup);
            int k = sig.nin - 1;
            while (k >= 0)
            {
                if (++idx[(size_t)k] < std::min(cap, alph[(size_t)k].size()))
                    break;
                idx[(size_t)k] = 0;
                --k;
            }
            if (k < 0)
                break;
        }
        s.finish();
        return s;
    }

    // C05: lane-aware data-movement spaces
    inline SubSpace make_perm_space(const std::string& key, const xv_op& sig, int L, const Tier& T)
    {
        SubSpace s;
        s.al.resize((size_t)sig.nin);
        s.perm_L = L;
        s.perm_es = xv_type_size[sig.elem];
        s.perm_fp = !is_int_type(sig.elem);
        if (key == "perm.tags")
        {
            s.perm_mode = 1;
            s.label = "lane tags (all bytes distinct; sNaN payloads / complemented tags), L=" + std::to_string(L);
        }
        else if (key == "perm.index")
        {
            s.perm_mode = 2;
            // run-time index vectors: every n^n vector for n <= 4 (thorough: n <= 8), the constant-mask families and all pairs of deviations from identity
            if (L <= 4 || (T.thorough && L <= 8))
            {
                uint64_t tot = 1;
                for (int i = 0; i < L; ++i)
                    tot *= (uint64_t)L;
                for (uint64_t c = 0; c < tot; ++c)
                {
                    std::vector<uint8_t> v((size_t)L);
                    uint64_t x = c;
                    for (int i = 0; i < L; ++i)
                    {
                        v[(size_t)i] = (uint8_t)(x % (uint64_t)L);
                        x /= (uint64_t)L;
                    }
                    s.perm_index.push_back(v);
                }
            }
            else
            {
                for (auto& m : perm_tables().swz[L])
                    s.perm_index.push_back(m);
                const int step = L <= 16 ? 1 : L / 8;
                for (int i = 0; i < L; i += step)
                    for (int j = 0; j < L; j += step)
                        for (int i2 = i + 1; i2 < L; i2 += step * 3)
                        {
                            std::vector<uint8_t> v((size_t)L);
                            for (int q = 0; q < L; ++q)
                                v[(size_t)q] = (uint8_t)q;
                            v[(size_t)i] = (uint8_t)j;
                            v[(size_t)i2] = (uint8_t)((j + i2) % L);
                            s.perm_index.push_back(v);
                        }
            }
            s.label = std::to_string(s.perm_index.size()) + " run-time index vectors x 2 tag assignments, L=" + std::to_string(L);
        }
        else
        {
            s.perm_mode = 3;
            if (L <= 16)
                for (uint64_t m = 0; m < (1ull << L); ++m)
                    s.perm_masks.push_back(m);
            else
            {
                const uint64_t ALL = L == 64 ? ~0ull : ((1ull << L) - 1);
                std::vector<uint64_t> v = { 0, ALL, 0x5555555555555555ull & ALL, 0xAAAAAAAAAAAAAAAAull & ALL, 0x3333333333333333ull & ALL, 0x0F0F0F0F0F0F0F0Full & ALL, 0x00FF00FF00FF00FFull & ALL, 0x0000FFFF0000FFFFull & ALL, 0x00000000FFFFFFFFull & ALL };
                for (int i = 0; i < L; ++i)
                {
                    v.push_back(1ull << i); // one-hot
                    v.push_back(ALL & ~(1ull << i)); // all but one
                    v.push_back(i == 63 ? ALL : ((1ull << (i + 1)) - 1)); // prefixes
                    v.push_back(ALL & ~(i == 63 ? ALL : ((1ull << (i + 1)) - 1))); // suffixes
                }
                for (int g = 0; g < L; g += 16)
                    for (uint64_t pat : { 0xFFFFull, 0x00FFull, 0xF0F0ull, 0x8001ull })
                        v.push_back((pat << g) & ALL); // per-128-bit-lane patterns
                uint64_t sd = T.seed * 131 + (uint64_t)L;
                for (int k = 0; k < (T.thorough ? 4096 : 256); ++k)
                    v.push_back(splitmix64(sd) & ALL);
                dedup_keep_order(v);
                s.perm_masks = v;
            }
            s.label = std::to_string(s.perm_masks.size()) + " masks x 2 tag assignments, L=" + std::to_string(L);
        }
        s.finish();
        return s;
    }

    inline std::vector<long> make_params(int kind, int elem)
    {
        std::vector<long> p;
        if (kind == 0)
            p.push_back(0);
        else if (kind == 1)
            for (int n = 0; n < xv_type_size[elem] * 8; ++n)
                p.push_back(n);
        else if (kind == 3)
            p = { 0, 1, 2, 3, 4, 5, 7, 8, 13, 31, 32, 64, 100, 1000, -1, -2, -3, -5, -8, -31, -1000, 65536, -65537, 2147483647L, -2147483647L, -2147483647L - 1 };
        else if (kind == 2)
            p = { 0, 1, -1, 2, 3, 7, 127, -128, 255, 1000, 65535, -32768, 2147483647L, -2147483648L, 4294967295L, 0x123456789ABCDEFL };
        return p;
    }

    // Build the plan for every op exported under property `prop` by the loaded modules.
    inline void build_plan(Explorer& E, const std::string& prop, const Tier& T, const std::set<std::string>& only_ops = {}, bool placement = false)
    {
        // union of (op name, elem) over modules
        std::map<std::pair<std::string, int>, std::vector<Impl>> impls;
        for (size_t mi = 0; mi < E.mods.size(); ++mi)
            for (int k = 0; k < E.mods[mi].m->nops; ++k)
            {
                const xv_op& o = E.mods[mi].m->ops[k];
                if (prop != o.prop)
                    continue;
                if (!only_ops.empty() && !only_ops.count(o.name))
                    continue;
                impls[{ o.name, o.elem }].push_back({ (int)mi, &o });
            }
        // groups keyed by (space key, elem, signature, subspace index)
        std::map<std::string, Group*> gmap;
        for (auto& kv : impls)
        {
            const std::string& name = kv.first.first;
            const xv_op& sig = *kv.second.front().op;
            const OpSpec* spec = find_spec(name);
            if (!spec || !spec->ref[sig.elem])
            {
                fprintf(stderr, "no reference model for op %s<%s>\n", name.c_str(), xv_type_name[sig.elem]);
                exit(2);
            }
            // all implementations must share the signature
            for (auto& im : kv.second)
                if (im.op->nin != sig.nin || im.op->nout != sig.nout || memcmp(im.op->in_t, sig.in_t, sizeof sig.in_t) || memcmp(im.op->out_t, sig.out_t, sizeof sig.out_t))
                {
                    fprintf(stderr, "signature mismatch for %s\n", name.c_str());
                    exit(2);
                }
            const std::string& skey = (!is_int_type(sig.elem) && !spec->fp_space.empty()) ? spec->fp_space : spec->space;
            if (placement)
            {
                if (spec->batchwise || skey == "witness" || skey == "bytes" || skey == "mask1" || skey == "mask2" || skey == "mask2s")
                    continue; // not element-wise
                std::set<int> Ls;
                for (auto& im : kv.second)
                    Ls.insert(im.op->lanes);
                std::vector<long> params = make_params(spec->param_kind, sig.elem);
                if (params.size() > 3)
                    params = { params[0], params[1], params.back() };
                for (int L : Ls)
                {
                    if (L < 2)
                        continue;
                    std::string gk = "place|" + skey + "|" + std::to_string(sig.elem) + "|L" + std::to_string(L) + "|" + std::to_string(sig.nin);
                    for (int k = 0; k < sig.nin; ++k)
                        gk += "," + std::to_string(sig.in_t[k]);
                    gk += "|" + std::to_string(sig.nout) + "," + std::to_string(sig.out_t[0]) + "," + std::to_string(sig.out_t[1]);
                    Group*& g = gmap[gk];
                    if (!g)
                    {
                        E.groups.emplace_back(new Group);
                        g = E.groups.back().get();
                        g->sig = sig;
                        g->sp = make_placement_space(skey, sig, L, T);
                    }
                    for (long p : params)
                    {
                        std::unique_ptr<OpInst> oi(new OpInst);
                        oi->spec = spec;
                        oi->name = name;
                        oi->prop = "C13";
                        oi->param = p;
                        for (auto& im : kv.second)
                            if (im.op->lanes == L)
                                oi->impls.push_back(im);
                        g->ops.push_back(std::move(oi));
                    }
                }
                continue;
            }
            if (skey.compare(0, 5, "perm.") == 0)
            {
                std::set<int> Ls;
                for (auto& im : kv.second)
                    Ls.insert(im.op->lanes);
                for (int L : Ls)
                {
                    std::string gk = skey + "|" + std::to_string(sig.elem) + "|L" + std::to_string(L) + "|" + std::to_string(sig.nin);
                    for (int k = 0; k < sig.nin; ++k)
                        gk += "," + std::to_string(sig.in_t[k]);
                    Group*& g = gmap[gk];
                    if (!g)
                    {
                        E.groups.emplace_back(new Group);
                        g = E.groups.back().get();
                        g->sig = sig;
                        g->sp = make_perm_space(skey, sig, L, T);
                    }
                    for (long pp : perm_params(spec->name, L, xv_type_size[sig.elem]))
                    {
                        std::unique_ptr<OpInst> oi(new OpInst);
                        oi->spec = spec;
                        oi->name = name;
                        oi->prop = prop;
                        oi->param = pp;
                        for (auto& im : kv.second)
                            if (im.op->lanes == L)
                                oi->impls.push_back(im);
                        g->ops.push_back(std::move(oi));
                    }
                }
                continue;
            }
            if (skey == "witness")
            {
                // lane-aware: one group per batch size, holding the implementations with that many lanes
                std::set<int> Ls;
                for (auto& im : kv.second)
                    Ls.insert(im.op->lanes);
                for (int L : Ls)
                {
                    std::string gk = skey + "|" + std::to_string(sig.elem) + "|L" + std::to_string(L);
                    Group*& g = gmap[gk];
                    if (!g)
                    {
                        E.groups.emplace_back(new Group);
                        g = E.groups.back().get();
                        g->sig = sig;
                        g->sp = make_witness_space(sig.elem, L, T);
                    }
                    std::unique_ptr<OpInst> oi(new OpInst);
                    oi->spec = spec;
                    oi->name = name;
                    oi->prop = prop;
                    for (auto& im : kv.second)
                        if (im.op->lanes == L)
                            oi->impls.push_back(im);
                    g->ops.push_back(std::move(oi));
                }
                continue;
            }
            auto spaces = make_spaces(skey, sig, T);
            for (size_t si = 0; si < spaces.size(); ++si)
            {
                std::string gk = skey + "|" + std::to_string(sig.elem) + "|" + std::to_string(si) + "|" + std::to_string(sig.nin);
                for (int k = 0; k < sig.nin; ++k)
                    gk += "," + std::to_string(sig.in_t[k]);
                gk += "|" + std::to_string(sig.nout) + "," + std::to_string(sig.out_t[0]) + "," + std::to_string(sig.out_t[1]);
                Group*& g = gmap[gk];
                if (!g)
                {
                    E.groups.emplace_back(new Group);
                    g = E.groups.back().get();
                    g->sig = sig;
                    g->sp = spaces[si];
                }
                for (long p : make_params(spec->param_kind, sig.elem))
                {
                    std::unique_ptr<OpInst> oi(new OpInst);
                    oi->spec = spec;
                    oi->name = name;
                    oi->prop = prop;
                    oi->skip_nan_inputs = prop == "C17";
                    oi->param = p;
                    oi->impls = kv.second;
                    g->ops.push_back(std::move(oi));
                }
            }
        }
    }
}
