// Operand spaces per (space key, element type, tier): the stated finite alphabets of DESIGN.md 6.
#pragma once
#include "elementwise.hpp"

namespace xv
{
    inline int max_lanes(int type) { return 64 / xv_type_size[type]; }
    inline bool is_int_type(int t) { return t <= XV_U64; }

    inline Alpha bool_alpha() { return Alpha::of({ 0, 1 }); }

    inline SubSpace mk(std::string label, std::vector<Alpha> al, int shifts, std::vector<int> order = {})
    {
        SubSpace s;
        s.label = std::move(label);
        s.al = std::move(al);
        s.shifts = shifts;
        s.order = std::move(order);
        s.finish();
        return s;
    }

    // value alphabet of one operand of element type t
    inline Alpha value_alpha(int t, const Tier& T, bool small)
    {
        int bits = xv_type_size[t] * 8;
        if (is_int_type(t))
        {
            if (bits == 8)
                return small ? int_lattice(8, T.seed, 4, true) : Alpha::ALL(8);
            return int_lattice(bits, T.seed, small ? 8 : T.nseed, small);
        }
        if (t == XV_F32)
            return fp_lattice<float>(T.seed, small ? 8 : T.nseed, small ? 0 : 1);
        return fp_lattice<double>(T.seed, small ? 8 : T.nseed, small ? 0 : 1);
    }

    inline std::vector<SubSpace> make_spaces(const std::string& key, const xv_op& sig, const Tier& T)
    {
        const int t = sig.elem;
        const int bits = xv_type_size[t] * 8;
        const int ML = max_lanes(t);
        std::vector<SubSpace> out;
        const bool isint = is_int_type(t);
        if (key == "un")
        {
            if (isint)
            {
                if (bits <= 16)
                    out.push_back(mk("ALL" + std::to_string(bits) + " x lanes", { Alpha::ALL(bits) }, ML));
                else
                    out.push_back(mk("L" + std::to_string(bits) + " x lanes", { value_alpha(t, T, false) }, ML));
            }
            else
            {
                out.push_back(mk("FL x lanes", { value_alpha(t, T, false) }, ML));
                if (t == XV_F32)
                {
                    if (T.thorough)
                        out.push_back(mk("ALL32", { Alpha::ALL(32) }, 1));
                    else
                        out.push_back(mk("BINADES32 x MANT(64)", { binades<float>(64, T.seed).odd() }, 1));
                }
                else
                    out.push_back(mk("BINADES64 x MANT", { binades<double>(T.thorough ? 256 : 16, T.seed).odd() }, 1));
            }
        }
        else if (key == "bin")
        {
            if (isint && bits == 8)
                out.push_back(mk("ALL8^2 x lanes", { Alpha::ALL(8), Alpha::ALL(8) }, ML));
            else if (isint && bits == 16)
            {
                Alpha L = value_alpha(t, T, false);
                out.push_back(mk("L16^2 x lanes", { L, L }, ML));
                if (T.thorough)
                {
                    out.push_back(mk("ALL16^2", { Alpha::ALL(16), Alpha::ALL(16) }, 1));
                }
                else
                {
                    out.push_back(mk("ALL16 x L16", { Alpha::ALL(16), L.odd() }, 1));
                    out.push_back(mk("L16 x ALL16", { L, Alpha::ALL(16).odd() }, 1));
                }
            }
            else
            {
                Alpha L = value_alpha(t, T, false);
                // keep the product near 2^21 points incl. lane shifts
                int sh = ML;
                while (sh > 1 && L.size() * L.size() * (uint64_t)sh > (T.thorough ? (1ull << 26) : (1ull << 23)))
                    sh /= 2;
                if (sh == ML)
                    out.push_back(mk("L^2 x lanes", { L, L }, ML));
                else
                {
                    out.push_back(mk("L^2", { L, L.odd() }, 1));
                    Alpha S = value_alpha(t, T, true);
                    out.push_back(mk("Ls^2 x lanes", { S, S }, ML));
                }
            }
        }
        else if (key == "ter")
        {
            Alpha S = value_alpha(t, T, true);
            if (isint && bits == 8)
            {
                if (T.thorough)
                    out.push_back(mk("ALL8^3", { Alpha::ALL(8), Alpha::ALL(8), Alpha::ALL(8).odd() }, 1));
                else
                    out.push_back(mk("ALL8^2 x L8", { Alpha::ALL(8), Alpha::ALL(8), S.odd() }, 1));
            }
            int sh = ML;
            while (sh > 1 && S.size() * S.size() * S.size() * (uint64_t)sh > (T.thorough ? (1ull << 25) : (1ull << 22)))
                sh /= 2;
            out.push_back(mk("Ls^3 x lanes", { S, S, sh == 1 ? S.odd() : S }, sh));
        }
        else if (key == "un_mask")
        {
            Alpha V = (isint && bits <= 16) ? Alpha::ALL(bits) : value_alpha(t, T, false);
            out.push_back(mk("V x {0,1} x lanes", { V, bool_alpha() }, ML));
        }
        else if (key == "sel")
        {
            // operands (mask, a, b): the mask varies fastest so one batch mixes true and false lanes
            Alpha V = (isint && bits == 8) ? Alpha::ALL(8) : value_alpha(t, T, bits > 8 ? true : false);
            out.push_back(mk("{0,1} x V^2 x lanes", { bool_alpha(), V, V }, ML, { 1, 2, 0 }));
        }
        else if (key == "shift_v")
        {
            Alpha V = (bits <= 16) ? Alpha::ALL(bits) : value_alpha(t, T, false);
            Alpha C = Alpha::range(0, (uint64_t)bits);
            if (bits == 16 && !T.thorough)
                out.push_back(mk("ALL16 x counts", { V, C.odd() }, 1));
            else
                out.push_back(mk("V x counts x lanes", { V, C }, ML));
        }
        else if (key == "rnd")
        {
            // rounding-sensitive values: every k/2 and its neighbours, windows around the magnitudes
            // where the add-and-subtract / conversion tricks change behaviour
            std::vector<uint64_t> v;
            auto addv = [&](double d)
            {
                if (t == XV_F32)
                {
                    uint64_t b = to_bits<float>((float)d);
                    for (int dd = -1; dd <= 1; ++dd)
                    {
                        v.push_back(b + dd);
                        v.push_back((b + dd) ^ 0x80000000ull);
                    }
                }
                else
                {
                    uint64_t b = to_bits<double>(d);
                    for (int dd = -1; dd <= 1; ++dd)
                    {
                        v.push_back(b + dd);
                        v.push_back((b + dd) ^ 0x8000000000000000ull);
                    }
                }
            };
            const int K = T.thorough ? (1 << 16) : (1 << 13);
            for (int k = 1; k <= K; ++k)
                addv(k * 0.5);
            const int W = 64;
            std::vector<int> centers = { 22, 23, 24, 25, 30, 31, 32, 33 };
            if (t == XV_F64)
                for (int c : { 51, 52, 53, 54, 62, 63, 64 })
                    centers.push_back(c);
            else
                for (int c : { 62, 63, 64 })
                    centers.push_back(c);
            for (int c : centers)
            {
                if (t == XV_F32)
                    window<float>(v, std::ldexp(1.0f, c), W);
                else
                    window<double>(v, std::ldexp(1.0, c), W);
            }
            if (t == XV_F32)
                for (float c : { 0.5f, 1.0f, 1.5f, 2.5f, 0.49999997f })
                    window<float>(v, c, 4);
            else
                for (double c : { 0.5, 1.0, 1.5, 2.5, 0.49999999999999994 })
                    window<double>(v, c, 4);
            dedup_keep_order(v);
            out.push_back(mk("k/2 +- ulp, windows at 2^22..2^64", { Alpha::of(v).odd() }, 1));
            auto more = make_spaces("un", sig, T);
            for (auto& m : more)
                out.push_back(m);
        }
        else if (key == "ldexp")
        {
            // (value, exponent): value lattice x every exponent of a range wider than the format's
            Alpha V = value_alpha(t, T, true);
            int R = t == XV_F32 ? 300 : 2200;
            std::vector<uint64_t> e;
            for (int k = 0; k <= R; ++k)
            {
                e.push_back((uint64_t)(int64_t)k);
                if (k)
                    e.push_back((uint64_t)(int64_t)-k);
            }
            const uint64_t M = t == XV_F32 ? 0xFFFFFFFFull : ~0ull;
            for (auto& x : e)
                x &= M;
            out.push_back(mk("Ls x exponents", { V, Alpha::of(e).odd() }, 1));
        }
        else if (key == "mask1")
        {
            SubSpace s;
            s.label = "every 16-bit mask value (lanes 0..15), structured upper lanes";
            s.al.resize(1);
            s.mask_kind = 1;
            s.mask_groups = 1ull << 16;
            s.finish();
            out.push_back(s);
        }
        else if (key == "mask2" || key == "mask2s")
        {
            SubSpace s;
            s.label = "all pairs of 8-bit masks (lanes 0..7), structured upper lanes";
            s.al.resize(2);
            s.mask_kind = 2;
            s.mask_groups = 1ull << 16;
            s.finish();
            out.push_back(s);
            if (key == "mask2s")
                return out;
            SubSpace u;
            u.label = "every 16-bit mask x 16 special partners";
            u.al.resize(2);
            u.mask_kind = 3;
            u.mask_groups = T.thorough ? (1ull << 20) : (1ull << 18);
            u.finish();
            out.push_back(u);
        }
        else if (key == "mask_un")
        {
            out.push_back(mk("{0,1} x lanes", { bool_alpha() }, ML));
        }
        else if (key == "mask_bin")
        {
            out.push_back(mk("{0,1}^2 x lanes", { bool_alpha(), bool_alpha() }, ML));
        }
        else
        {
            fprintf(stderr, "unknown space key %s\n", key.c_str());
            exit(2);
        }
        return out;
    }

    inline std::vector<long> make_params(int kind, int elem)
    {
        std::vector<long> p;
        if (kind == 0)
            p.push_back(0);
        else if (kind == 1)
            for (int n = 0; n < xv_type_size[elem] * 8; ++n)
                p.push_back(n);
        else if (kind == 2)
            p = { 0, 1, -1, 2, 3, 7, 127, -128, 255, 1000, 65535, -32768, 2147483647L, -2147483648L, 4294967295L, 0x123456789ABCDEFL };
        return p;
    }

    // Build the plan for every op exported under property `prop` by the loaded modules.
    inline void build_plan(Explorer& E, const std::string& prop, const Tier& T, const std::set<std::string>& only_ops = {})
    {
        // union of (op name, elem) over modules
        std::map<std::pair<std::string, int>, std::vector<Impl>> impls;
        for (size_t mi = 0; mi < E.mods.size(); ++mi)
            for (int k = 0; k < E.mods[mi].m->nops; ++k)
            {
                const xv_op& o = E.mods[mi].m->ops[k];
                if (prop != o.prop)
                    continue;
                if (!only_ops.empty() && !only_ops.count(o.name))
                    continue;
                impls[{ o.name, o.elem }].push_back({ (int)mi, &o });
            }
        // groups keyed by (space key, elem, signature, subspace index)
        std::map<std::string, Group*> gmap;
        for (auto& kv : impls)
        {
            const std::string& name = kv.first.first;
            const xv_op& sig = *kv.second.front().op;
            const OpSpec* spec = find_spec(name);
            if (!spec || !spec->ref[sig.elem])
            {
                fprintf(stderr, "no reference model for op %s<%s>\n", name.c_str(), xv_type_name[sig.elem]);
                exit(2);
            }
            // all implementations must share the signature
            for (auto& im : kv.second)
                if (im.op->nin != sig.nin || im.op->nout != sig.nout || memcmp(im.op->in_t, sig.in_t, sizeof sig.in_t) || memcmp(im.op->out_t, sig.out_t, sizeof sig.out_t))
                {
                    fprintf(stderr, "signature mismatch for %s\n", name.c_str());
                    exit(2);
                }
            const std::string& skey = (!is_int_type(sig.elem) && !spec->fp_space.empty()) ? spec->fp_space : spec->space;
            auto spaces = make_spaces(skey, sig, T);
            for (size_t si = 0; si < spaces.size(); ++si)
            {
                std::string gk = skey + "|" + std::to_string(sig.elem) + "|" + std::to_string(si) + "|" + std::to_string(sig.nin);
                for (int k = 0; k < sig.nin; ++k)
                    gk += "," + std::to_string(sig.in_t[k]);
                gk += "|" + std::to_string(sig.nout) + "," + std::to_string(sig.out_t[0]) + "," + std::to_string(sig.out_t[1]);
                Group*& g = gmap[gk];
                if (!g)
                {
                    E.groups.emplace_back(new Group);
                    g = E.groups.back().get();
                    g->sig = sig;
                    g->sp = spaces[si];
                }
                for (long p : make_params(spec->param_kind, sig.elem))
                {
                    std::unique_ptr<OpInst> oi(new OpInst);
                    oi->spec = spec;
                    oi->name = name;
                    oi->prop = prop;
                    oi->param = p;
                    oi->impls = kv.second;
                    g->ops.push_back(std::move(oi));
                }
            }
        }
    }
}
