// Reference model for C06: static_cast of each lane in the strict reference TU whenever the source
// value is representable in the destination; memcpy for bitwise_cast.
#pragma once
#include "refs_cmp.hpp"

namespace xv
{
    template <class From, class To>
    inline void conv_one(From v, To& e, bool& skip)
    {
        skip = false;
        if constexpr (std::is_floating_point<From>::value && std::is_integral<To>::value)
        {
            if (v != v)
            {
                skip = true;
                e = 0;
                return;
            }
            From t = std::trunc(v);
            constexpr int bits = (int)sizeof(To) * 8;
            bool ok;
            if (std::is_signed<To>::value)
                ok = t >= -std::ldexp((From)1, bits - 1) && t < std::ldexp((From)1, bits - 1);
            else
                ok = t >= (From)0 && t < std::ldexp((From)1, bits);
            if (!ok)
            {
                skip = true;
                e = 0;
                return;
            }
            e = (To)t;
        }
        else
        {
            volatile From vv = v;
            e = (To)vv;
        }
    }

    template <class From, class To>
    void ref_conv_loop(const RefArgs& A)
    {
        const From* in = (const From*)A.in[0];
        To* e1 = (To*)A.e1[0];
        To* e2 = (To*)A.e2[0];
        for (size_t i = 0; i < A.n; ++i)
        {
            To e;
            bool skip;
            conv_one<From, To>(in[i], e, skip);
            e1[i] = e;
            e2[i] = e;
            A.flags[i] = skip ? F_SKIP : 0;
        }
    }

    template <class From>
    inline RefLoop conv_to(int to)
    {
        switch (to)
        {
        case XV_I8: return &ref_conv_loop<From, int8_t>;
        case XV_U8: return &ref_conv_loop<From, uint8_t>;
        case XV_I16: return &ref_conv_loop<From, int16_t>;
        case XV_U16: return &ref_conv_loop<From, uint16_t>;
        case XV_I32: return &ref_conv_loop<From, int32_t>;
        case XV_U32: return &ref_conv_loop<From, uint32_t>;
        case XV_I64: return &ref_conv_loop<From, int64_t>;
        case XV_U64: return &ref_conv_loop<From, uint64_t>;
        case XV_F32: return &ref_conv_loop<From, float>;
        case XV_F64: return &ref_conv_loop<From, double>;
        }
        return nullptr;
    }
    inline RefLoop conv_fn(int from, int to)
    {
        switch (from)
        {
        case XV_I8: return conv_to<int8_t>(to);
        case XV_U8: return conv_to<uint8_t>(to);
        case XV_I16: return conv_to<int16_t>(to);
        case XV_U16: return conv_to<uint16_t>(to);
        case XV_I32: return conv_to<int32_t>(to);
        case XV_U32: return conv_to<uint32_t>(to);
        case XV_I64: return conv_to<int64_t>(to);
        case XV_U64: return conv_to<uint64_t>(to);
        case XV_F32: return conv_to<float>(to);
        case XV_F64: return conv_to<double>(to);
        }
        return nullptr;
    }
    inline void ref_convert(const RefArgs& A)
    {
        RefLoop f = conv_fn(A.sig->in_t[0], A.sig->out_t[0]);
        f(A);
    }
    inline void ref_bytes_identity(const RefArgs& A)
    {
        memcpy(A.e1[0], A.in[0], A.n);
        memcpy(A.e2[0], A.in[0], A.n);
        memset(A.flags, F_EXACT, A.n);
    }

    inline void register_conv_specs()
    {
        for (const char* n : { "batch_cast", "load_as", "store_as", "broadcast_as", "to_int", "to_float" })
        {
            OpSpec& s = specs()[n];
            s.name = n;
            s.space = "conv";
            for (int t = 0; t < XV_NTYPES; ++t)
                s.ref[t] = &ref_convert;
        }
        OpSpec& b = specs()["bitwise_cast"];
        b.name = "bitwise_cast";
        b.space = "bytes";
        for (int t = 0; t < XV_NTYPES; ++t)
            b.ref[t] = &ref_bytes_identity;
    }
}
