// Small utilities of the explorer: aligned buffers, parallel-for, JSON emitter, hashing.
#pragma once
#include <atomic>
#include <chrono>
#include <cinttypes>
#include <cmath>
#include <cstdint>
#include <cstdio>
#include <cstdlib>
#include <cstring>
#include <functional>
#include <map>
#include <mutex>
#include <set>
#include <sstream>
#include <string>
#include <thread>
#include <vector>

namespace xv
{
    inline double now_s()
    {
        using namespace std::chrono;
        return duration<double>(steady_clock::now().time_since_epoch()).count();
    }

    inline uint64_t splitmix64(uint64_t& s)
    {
        uint64_t z = (s += 0x9E3779B97F4A7C15ull);
        z = (z ^ (z >> 30)) * 0xBF58476D1CE4E5B9ull;
        z = (z ^ (z >> 27)) * 0x94D049BB133111EBull;
        return z ^ (z >> 31);
    }
    inline uint64_t mix64(uint64_t z)
    {
        z = (z ^ (z >> 30)) * 0xBF58476D1CE4E5B9ull;
        z = (z ^ (z >> 27)) * 0x94D049BB133111EBull;
        return z ^ (z >> 31);
    }

    struct Buf
    {
        void* p = nullptr;
        size_t cap = 0;
        Buf() = default;
        Buf(const Buf&) = delete;
        Buf& operator=(const Buf&) = delete;
        ~Buf() { free(p); }
        void* need(size_t bytes)
        {
            if (bytes > cap)
            {
                free(p);
                cap = (bytes + 4095) & ~size_t(4095);
                if (posix_memalign(&p, 64, cap + 64))
                    abort();
            }
            return p;
        }
        template <class T>
        T* as() { return (T*)p; }
    };

    // parallel_for over [0,n): f(thread, index); dynamic scheduling through one atomic counter
    template <class F>
    void parallel_for(uint64_t n, int nthreads, F f)
    {
        if (n == 0)
            return;
        if (nthreads > (int)n)
            nthreads = (int)n;
        if (nthreads <= 1)
        {
            for (uint64_t i = 0; i < n; ++i)
                f(0, i);
            return;
        }
        std::atomic<uint64_t> next { 0 };
        std::vector<std::thread> th;
        for (int t = 0; t < nthreads; ++t)
            th.emplace_back([&, t]()
                            {
                                for (;;)
                                {
                                    uint64_t i = next.fetch_add(1, std::memory_order_relaxed);
                                    if (i >= n)
                                        break;
                                    f(t, i);
                                } });
        for (auto& x : th)
            x.join();
    }

    inline uint64_t load_bits(const void* p, int size)
    {
        uint64_t v = 0;
        memcpy(&v, p, (size_t)size);
        return v;
    }
    inline void store_bits(void* p, int size, uint64_t v) { memcpy(p, &v, (size_t)size); }

    inline std::string hex(uint64_t v, int size)
    {
        char b[32];
        snprintf(b, sizeof b, "0x%0*" PRIx64, size * 2, v);
        return b;
    }

    // ---- minimal JSON emitter ---------------------------------------------------------------
    struct J
    {
        std::string s;
        std::vector<char> first; // per nesting level
        void sep()
        {
            if (!first.empty())
            {
                if (!first.back())
                    s += ",";
                first.back() = 0;
            }
        }
        static std::string esc(const std::string& x)
        {
            std::string o;
            for (unsigned char c : x)
            {
                if (c == '"' || c == '\\')
                {
                    o += '\\';
                    o += (char)c;
                }
                else if (c < 32)
                {
                    char b[8];
                    snprintf(b, sizeof b, "\\u%04x", c);
                    o += b;
                }
                else
                    o += (char)c;
            }
            return o;
        }
        J& obj()
        {
            valsep();
            s += "{";
            first.push_back(1);
            return *this;
        }
        J& arr()
        {
            valsep();
            s += "[";
            first.push_back(1);
            return *this;
        }
        J& end(char c)
        {
            first.pop_back();
            s += c;
            return *this;
        }
        J& eobj() { return end('}'); }
        J& earr() { return end(']'); }
        void valsep()
        {
            // a value either follows a key (marker 1 pushed by key -> pop it) or is an array item
            if (!first.empty() && keyed)
            {
                first.pop_back();
                keyed = false;
            }
            else
                sep();
        }
        bool keyed = false;
        J& k(const std::string& name)
        {
            sep();
            s += "\"" + esc(name) + "\":";
            first.push_back(1);
            keyed = true;
            return *this;
        }
        J& str(const std::string& v)
        {
            valsep();
            s += "\"" + esc(v) + "\"";
            return *this;
        }
        J& num(double v)
        {
            valsep();
            char b[64];
            if (std::isfinite(v))
                snprintf(b, sizeof b, "%.17g", v);
            else
                snprintf(b, sizeof b, "\"%s\"", std::isnan(v) ? "nan" : (v > 0 ? "inf" : "-inf"));
            s += b;
            return *this;
        }
        J& i(long long v)
        {
            valsep();
            s += std::to_string(v);
            return *this;
        }
        J& u(unsigned long long v)
        {
            valsep();
            s += std::to_string(v);
            return *this;
        }
        J& b(bool v)
        {
            valsep();
            s += v ? "true" : "false";
            return *this;
        }
        J& raw(const std::string& v)
        {
            valsep();
            s += v;
            return *this;
        }
    };
}
