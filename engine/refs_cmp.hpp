// Reference models for C03: per-lane scalar predicates, the n-bit integer model of a mask.
#pragma once
#include "refs_fp.hpp"

namespace xv
{
    XV_REF(ref_eq, r.bv = x.a == x.b;)
    XV_REF(ref_ne, r.bv = x.a != x.b;)
    XV_REF(ref_lt, r.bv = x.a < x.b;)
    XV_REF(ref_le, r.bv = x.a <= x.b;)
    XV_REF(ref_gt, r.bv = x.a > x.b;)
    XV_REF(ref_ge, r.bv = x.a >= x.b;)
    XV_REF(ref_select, r.v = x.m ? x.a : x.b; r.exact = true;)
    XV_REF(ref_bid, r.bv = x.m;)
    XV_REF(ref_bnot, r.bv = !x.m;)
    XV_REF(ref_band, r.bv = x.m && x.m2;)
    XV_REF(ref_bor, r.bv = x.m || x.m2;)
    XV_REF(ref_bxor, r.bv = x.m != x.m2;)
    XV_REF(ref_beq, r.bv = x.m == x.m2;)
    XV_REF(ref_bne, r.bv = x.m != x.m2;)
    XV_REF(ref_bandnot, r.bv = x.m && !x.m2;)

    // batch-wise summaries of a mask: every lane of the (replicated) result carries the batch's value
    template <int KIND>
    inline void ref_mask_summary(const RefArgs& A)
    {
        const uint8_t* m = (const uint8_t*)A.in[0];
        const size_t L = (size_t)A.lanes;
        const int ot = A.sig->out_t[0];
        for (size_t b = 0; b + L <= A.n; b += L)
        {
            uint64_t bits = 0, cnt = 0;
            for (size_t i = 0; i < L; ++i)
                if (m[b + i])
                {
                    bits |= 1ull << i;
                    ++cnt;
                }
            uint64_t v = KIND == 0 ? (cnt == L) : KIND == 1 ? (cnt != 0)
                : KIND == 2                                 ? (cnt == 0)
                : KIND == 3                                 ? cnt
                                                            : bits;
            for (size_t i = 0; i < L; ++i)
            {
                store_int(A.e1[0], ot, b + i, (int64_t)v);
                store_int(A.e2[0], ot, b + i, (int64_t)v);
                A.flags[b + i] = 0;
            }
        }
        for (size_t i = A.n - A.n % L; i < A.n; ++i)
            A.flags[i] = F_SKIP;
    }

    template <template <class> class R>
    inline OpSpec& def_all(const char* name, const char* space)
    {
        OpSpec& s = specs()[name];
        s.name = name;
        s.space = space;
        set_int_refs<R>(s);
        set_fp_refs<R>(s);
        return s;
    }
    inline OpSpec& def_batchwise(const char* name, const char* space, RefLoop f)
    {
        OpSpec& s = specs()[name];
        s.name = name;
        s.space = space;
        s.batchwise = true;
        for (int t = 0; t < XV_NTYPES; ++t)
            s.ref[t] = f;
        return s;
    }

    inline void register_cmp_specs()
    {
        def_all<ref_eq>("eq", "bin");
        def_all<ref_ne>("ne", "bin");
        def_all<ref_lt>("lt", "bin");
        def_all<ref_le>("le", "bin");
        def_all<ref_gt>("gt", "bin");
        def_all<ref_ge>("ge", "bin");
        def_all<ref_select>("select", "sel");
        def_all<ref_bid>("bid", "mask1");
        def_all<ref_bnot>("bnot", "mask1");
        def_all<ref_band>("band", "mask2");
        def_all<ref_bor>("bor", "mask2");
        def_all<ref_bxor>("bxor", "mask2");
        def_all<ref_beq>("beq", "mask2");
        def_all<ref_bne>("bne", "mask2");
        def_all<ref_bandnot>("bandnot", "mask2");
        def_all<ref_bnot>("blnot", "mask1");
        def_all<ref_band>("bland", "mask2");
        def_all<ref_bor>("blor", "mask2");
        // the slower provenance/observation variants explore the pair space of 8-lane masks only
        for (const char* base : { "band", "bor", "bxor", "beq", "bne", "bandnot", "bland", "blor" })
            for (const char* suf : { ".cmp", ".cast", ".ctor" })
            {
                OpSpec s = specs()[base];
                s.name = std::string(base) + suf;
                s.space = "mask2s";
                specs()[s.name] = s;
            }
        def_batchwise("ball", "mask1", &ref_mask_summary<0>);
        def_batchwise("bany", "mask1", &ref_mask_summary<1>);
        def_batchwise("bnone", "mask1", &ref_mask_summary<2>);
        def_batchwise("bcount", "mask1", &ref_mask_summary<3>);
        def_batchwise("bmask", "mask1", &ref_mask_summary<4>);
    }
}
